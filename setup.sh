#!/bin/bash
# MANIFEST.setup_cmd: offline build of the monitor binaries (plain and -race) from files on disk only.
set -eu
cd "$(dirname "$0")"
export GOFLAGS=-mod=mod GOPROXY=off GOSUMDB=off GOTOOLCHAIN=local
mkdir -p .work/bin evidence replays
go build -tags verif -o .work/bin/mon ./cmd/mon
go build -tags verif -race -o .work/bin/mon-race ./cmd/mon
echo "setup ok"
