// Command mon runs one property monitor: mon <Cxx>. Tier, seed and replay are
// taken from VERIF_TIER, VERIF_SEED, VERIF_REPLAY.
package main

import (
	"bytes"
	"encoding/json"
	"fmt"
	"hash/fnv"
	"io"
	"os"
	"os/exec"
	"path/filepath"
	"strings"
	"syscall"

	"verif/internal/mon"
)

var monitors = map[string]func(*mon.M){}

func main() {
	if len(os.Args) < 2 {
		fmt.Fprintln(os.Stderr, "usage: mon <property-id> | mon worker <kind> ...")
		os.Exit(2)
	}
	if os.Args[1] == "worker" {
		workerMain(os.Args[2:])
		return
	}
	f, ok := monitors[os.Args[1]]
	if !ok {
		fmt.Fprintln(os.Stderr, "unknown property", os.Args[1])
		os.Exit(2)
	}
	if os.Getenv("VERIF_SUPERVISED") == "" {
		os.Exit(supervise(os.Args[1]))
	}
	if os.Args[1] != "C14" { // (the race-detector build needs a far larger address space)
		// a library change that makes some loop allocate without bound must end in the Go runtime's own
		// "out of memory" (reported by the supervisor) and not in the kernel's OOM killer
		lim := uint64(24 << 30)
		syscall.Setrlimit(syscall.RLIMIT_AS, &syscall.Rlimit{Cur: lim, Max: lim})
	}
	m := mon.New(os.Args[1])
	f(m)
	os.Exit(m.Finish())
}

// supervise runs the monitor in a child process. The monitors call library code in-process; if that code
// brings the whole process down (stack overflow from unbounded recursion, "concurrent map writes", out of
// memory) no monitor survives to report it, so the parent turns an abnormal death into a violation with
// the head of the child's stderr as witness. Normal exits (0 held, 1 violated, 3 inconclusive, 2 with a
// BROKEN-CHECK/usage line) are passed through unchanged.
func supervise(prop string) int {
	self, _ := os.Executable()
	cmd := exec.Command(self, os.Args[1:]...)
	cmd.Env = append(os.Environ(), "VERIF_SUPERVISED=1")
	var errb bytes.Buffer
	cmd.Stdout = os.Stdout
	cmd.Stderr = io.MultiWriter(os.Stderr, &limited{b: &errb, max: 1 << 20})
	err := cmd.Run()
	if err == nil {
		return 0
	}
	ee, ok := err.(*exec.ExitError)
	if !ok {
		fmt.Fprintln(os.Stderr, "cannot run the monitor:", err)
		return 2
	}
	code := ee.ExitCode()
	out := errb.String()
	fatal := ""
	for _, ln := range strings.Split(out, "\n") {
		if strings.HasPrefix(ln, "fatal error:") || strings.HasPrefix(ln, "panic:") || strings.HasPrefix(ln, "runtime: goroutine stack exceeds") || strings.Contains(ln, "runtime: out of memory") {
			fatal = strings.TrimSpace(ln)
			break
		}
	}
	if code >= 0 && code != 2 || (code == 2 && fatal == "") {
		return code // an ordinary verdict (or a BROKEN-CHECK / build problem reported by the child itself)
	}
	if fatal == "" {
		fatal = "killed: " + ee.String()
	}
	fp := prop + "/monitor-process-died/" + mon.Shorten(fatal)
	h := fnv.New32a()
	h.Write([]byte(fp))
	dir := filepath.Join(mon.Root(), "replays")
	os.MkdirAll(dir, 0o755)
	rp := filepath.Join(dir, fmt.Sprintf("%s-%08x.json", prop, h.Sum32()))
	head := out
	if len(head) > 6000 {
		head = head[:6000]
	}
	b, _ := json.MarshalIndent(map[string]any{"fingerprint": fp, "property": prop, "seed": os.Getenv("VERIF_SEED"), "tier": os.Getenv("VERIF_TIER"),
		"what": "the process running the library under the monitor died: " + fatal, "detail": map[string]any{"exit": ee.String(), "stderr_head": head, "rerun": "./check " + prop + " " + os.Getenv("VERIF_TIER") + " with the same VERIF_SEED"}}, "", " ")
	os.WriteFile(rp, b, 0o644)
	fmt.Printf("VIOLATION property=%s replay=%s\n  fingerprint=%s what=%s\n", prop, rp, fp, fatal)
	fmt.Printf("%s %s seed=%s: the monitor process died (%s); no evidence file was written; verdict=violated\n", prop, os.Getenv("VERIF_TIER"), os.Getenv("VERIF_SEED"), ee.String())
	return 1
}

type limited struct {
	b   *bytes.Buffer
	max int
}

func (l *limited) Write(p []byte) (int, error) {
	if l.b.Len() < l.max {
		l.b.Write(p)
	}
	return len(p), nil
}
