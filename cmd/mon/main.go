// Command mon runs one property monitor: mon <Cxx>. Tier, seed and replay are
// taken from VERIF_TIER, VERIF_SEED, VERIF_REPLAY.
package main

import (
	"fmt"
	"os"

	"verif/internal/mon"
)

var monitors = map[string]func(*mon.M){}

func main() {
	if len(os.Args) < 2 {
		fmt.Fprintln(os.Stderr, "usage: mon <property-id> | mon worker <kind> ...")
		os.Exit(2)
	}
	if os.Args[1] == "worker" {
		workerMain(os.Args[2:])
		return
	}
	f, ok := monitors[os.Args[1]]
	if !ok {
		fmt.Fprintln(os.Stderr, "unknown property", os.Args[1])
		os.Exit(2)
	}
	m := mon.New(os.Args[1])
	f(m)
	os.Exit(m.Finish())
}
