package main

import (
	"fmt"
	"os"

	"verif/internal/c01"
	"verif/internal/c02"
	"verif/internal/c03"
	"verif/internal/c04"
	"verif/internal/c05"
	"verif/internal/c06"
	"verif/internal/c07"
	"verif/internal/c08"
	"verif/internal/c09"
	"verif/internal/c10"
	"verif/internal/c11"
	"verif/internal/c12"
	"verif/internal/c13"
	"verif/internal/c14"
	"verif/internal/c15"
	"verif/internal/c16"
	"verif/internal/c17"
	"verif/internal/c18"
	"verif/internal/c19"
	"verif/internal/c20"
)

func init() {
	monitors["C01"] = c01.Run
	monitors["C02"] = c02.Run
	monitors["C03"] = c03.Run
	monitors["C04"] = c04.Run
	monitors["C05"] = c05.Run
	monitors["C06"] = c06.Run
	monitors["C07"] = c07.Run
	monitors["C08"] = c08.Run
	monitors["C09"] = c09.Run
	monitors["C10"] = c10.Run
	monitors["C11"] = c11.Run
	monitors["C12"] = c12.Run
	monitors["C13"] = c13.Run
	monitors["C14"] = c14.Run
	monitors["C15"] = c15.Run
	monitors["C16"] = c16.Run
	monitors["C17"] = c17.Run
	monitors["C18"] = c18.Run
	monitors["C19"] = c19.Run
	monitors["C20"] = c20.Run
}

// workerMain dispatches crash-isolated child workers (C01, C05, C13, C14, C15).
func workerMain(args []string) {
	if len(args) > 0 && args[0] == "c01" {
		c01.Worker(args[1:])
		return
	}
	if len(args) > 0 && args[0] == "c05" {
		c05.Worker(args[1:])
		return
	}
	if len(args) > 0 && args[0] == "c13" {
		c13.Worker(args[1:])
		return
	}
	if len(args) > 0 && args[0] == "c14" {
		c14.Worker(args[1:])
		return
	}
	if len(args) > 0 && args[0] == "c15" {
		c15.Worker(args[1:])
		return
	}
	fmt.Fprintln(os.Stderr, "unknown worker kind:", args)
	os.Exit(2)
}
