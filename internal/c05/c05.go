// Package c05 monitors C05: coverings cover, interior coverings are contained,
// level limits are honoured, and the region predicates are one-sidedly safe.
package c05

import (
	"fmt"
	"math"
	"math/rand"

	"github.com/golang/geo/r1"
	"github.com/golang/geo/s1"
	"github.com/golang/geo/s2"

	"verif/internal/gen"
	"verif/internal/mon"
	"verif/internal/ref"
)

var origin = gen.V(s2.OriginPoint())

func Run(m *mon.M) {
	m.Rule = "regions of every kind (cap, lat-lng rectangle, cell, cell union, loop, polygon with holes, polyline with short/long/polar edges, point, full/empty, RegionUnion of 2..4 of these close together or far apart), 1e-7 rad .. whole sphere, at poles / antimeridian / cube corners and edges, with coverer options MinLevel<=MaxLevel over 0..30 (MinLevel capped where a legitimate covering would exceed ~10^4 cells), LevelMod 1..3, MaxCells {1,2,3,4,8,50,500}. A (region, options) pair is non-trivial and distinct when new AND (LevelMod > 1, or MinLevel > 0, or MaxLevel below the level of the region's own cell-union bound)"
	m.Assumptions = []string{"points of a region by its exact semantics: internal/ref crossing parity for loops/polygons, the type's own closed membership for caps/rectangles/cells/cell unions, vertices and rounded edge samples for polylines (1e-14 rad neighbourhood)", "a covering contains p when some covering cell contains p as a closed cell (CellFromCellID(id).ContainsPoint(p))"}
	m.Require("coverings.checked", 30000)
	m.Require("interior.cells_checked", 30000)
	m.Require("fast.checked", 30000)
	m.Require("predicate.cells_checked", 200000)
	m.Require("config.levelmod_gt1", 5000)
	m.Require("predicate.contains_true", 2000)
	m.Require("predicate.intersects_false", 2000)
	m.Require("predicate.lens_cells", 1000)
	m.Stream("cover", m.N(40000, 1500000), coverCase)
	runUserBound(m)
}

// region is a generated region with its exact point semantics.
type region struct {
	r      s2.Region
	kind   string
	in     func(p s2.Point) bool // exact membership (nil: no interior, only the listed points)
	points []s2.Point            // points of the region (boundary and interior)
	cells  []s2.Cell             // cells that the region grazes by construction (tested first by the predicate monitor)
	diam   float64               // rough angular diameter
	center s2.Point
	desc   func() any
	// pointsExact: every listed point is a point of the region (no filtering by in, which then is a
	// sufficient membership test that may omit members without interior)
	pointsExact bool
}

func ringsPolygon(r *rand.Rand, ctr s2.Point, rad float64) (*s2.Polygon, func(s2.Point) bool, []s2.Point) {
	depth := 1 + r.Intn(3)
	var loops []*s2.Loop
	var models []*ref.LoopModel
	var pts []s2.Point
	for d := 0; d < depth; d++ {
		n := 3 + r.Intn(20)
		if r.Intn(4) == 0 {
			n = 33 + r.Intn(60)
		}
		sp := gen.StarLoop(r, ctr, n, rad*0.8, rad)
		loops = append(loops, sp.Loop())
		models = append(models, ref.NewLoopModel(gen.Vs(sp.Vs), origin, gen.RefDir))
		pts = append(pts, sp.Vs...)
		pts = append(pts, gen.BoundaryProbes(r, sp.Vs, 8)...)
		rad = sp.RMin * 0.7
		if rad < 1e-9 {
			break
		}
	}
	in := func(p s2.Point) bool {
		k := 0
		for _, m := range models {
			if m.Contains(gen.V(p)) {
				k++
			}
		}
		return k%2 == 1
	}
	return s2.PolygonFromLoops(loops), in, pts
}

// lensCap: a cap centred just outside a cell whose only contact with the cell is a thin lens across the
// interior of one cell edge (no vertex or centre of either lies in the other).
func lensCap(r *rand.Rand, ctr s2.Point) (s2.Cap, s2.Cell, []s2.Point, bool) {
	cell := s2.CellFromCellID(s2.CellFromPoint(ctr).ID().Parent(r.Intn(25)))
	k := r.Intn(4)
	a, b := cell.Vertex(k), cell.Vertex((k+1)%4)
	n := a.PointCross(b).Normalize()
	if cell.Center().Dot(n) > 0 {
		n = n.Mul(-1) // outward
	}
	q := s2.Interpolate(0.15+0.7*r.Float64(), a, b)
	el := a.Distance(b).Radians()
	d := el * gen.LogUniform(r, 1e-3, 0.2)
	over := d * gen.LogUniform(r, 1e-4, 0.3)
	c := s2.Point{Vector: q.Mul(math.Cos(d)).Add(n.Mul(math.Sin(d))).Normalize()}
	cp := s2.CapFromCenterAngle(c, s1.Angle(d+over))
	var pts []s2.Point
	for _, f := range []float64{0.3, 0.6, 0.9} {
		e := over * f
		pts = append(pts, s2.Point{Vector: q.Mul(math.Cos(e)).Sub(n.Mul(math.Sin(e))).Normalize()})
	}
	return cp, cell, pts, true
}

// lensRect: a rectangle on the poleward side of a cell edge whose constant-latitude side cuts the poleward
// bulge of that (geodesic) edge.
func lensRect(r *rand.Rand, ctr s2.Point) (s2.Rect, s2.Cell, []s2.Point, bool) {
	cell := s2.CellFromCellID(s2.CellFromPoint(ctr).ID().Parent(r.Intn(22)))
	k := r.Intn(4)
	a, b := cell.Vertex(k), cell.Vertex((k+1)%4)
	best, bt := 0.0, -1.0
	for i := 0; i <= 64; i++ {
		t := float64(i) / 64
		if l := math.Abs(s2.LatLngFromPoint(s2.Interpolate(t, a, b)).Lat.Radians()); l > best {
			best, bt = l, t
		}
	}
	if bt <= 0 || bt >= 1 {
		return s2.Rect{}, cell, nil, false
	}
	m := s2.LatLngFromPoint(s2.Interpolate(bt, a, b))
	la, lb := s2.LatLngFromPoint(a), s2.LatLngFromPoint(b)
	h := best - math.Max(math.Abs(la.Lat.Radians()), math.Abs(lb.Lat.Radians()))
	if h < 1e-12 {
		return s2.Rect{}, cell, nil, false
	}
	sgn := 1.0
	if m.Lat < 0 {
		sgn = -1
	}
	span := s1.IntervalFromPointPair(la.Lng.Radians(), lb.Lng.Radians())
	var rc s2.Rect
	var pts []s2.Point
	switch r.Intn(3) {
	case 0: // the rectangle's constant-latitude side cuts the bulge from the poleward side
		inner := m.Lat.Radians() - sgn*h*(0.05+0.85*r.Float64())
		outer := m.Lat.Radians() + sgn*h*(0.5+3*r.Float64())
		outer = math.Max(-math.Pi/2, math.Min(math.Pi/2, outer))
		halfw := math.Min(3, 0.5*span.Length()*(0.7+0.8*r.Float64()))
		rc = s2.Rect{Lat: r1.Interval{Lo: math.Min(inner, outer), Hi: math.Max(inner, outer)},
			Lng: s1.IntervalFromEndpoints(math.Remainder(m.Lng.Radians()-halfw, 2*math.Pi), math.Remainder(m.Lng.Radians()+halfw, 2*math.Pi))}
		for _, f := range []float64{-0.1, -0.03, 0, 0.03, 0.1} {
			pts = append(pts, s2.PointFromLatLng(s2.LatLng{Lat: s1.Angle(inner + sgn*h*1e-3), Lng: s1.Angle(math.Remainder(m.Lng.Radians()+f*halfw, 2*math.Pi))}))
		}
	case 1: // the rectangle holds all four cell vertices but not the bulge of the edge between two of them
		lim := math.Max(math.Abs(la.Lat.Radians()), math.Abs(lb.Lat.Radians())) + h*(0.1+0.8*r.Float64())
		lo, hi := math.Inf(1), math.Inf(-1)
		lng := s1.EmptyInterval()
		for j := 0; j < 4; j++ {
			ll := s2.LatLngFromPoint(cell.Vertex(j))
			lo, hi = math.Min(lo, ll.Lat.Radians()), math.Max(hi, ll.Lat.Radians())
			lng = lng.AddPoint(ll.Lng.Radians())
		}
		marg := (hi - lo) * (0.01 + r.Float64())
		if sgn > 0 {
			rc = s2.Rect{Lat: r1.Interval{Lo: math.Max(-math.Pi/2, lo-marg), Hi: math.Min(math.Pi/2, lim)}, Lng: lng.Expanded(lng.Length() * 0.1 * r.Float64())}
		} else {
			rc = s2.Rect{Lat: r1.Interval{Lo: math.Max(-math.Pi/2, -lim), Hi: math.Min(math.Pi/2, hi+marg)}, Lng: lng.Expanded(lng.Length() * 0.1 * r.Float64())}
		}
	default: // a rectangle wider than 180 degrees whose excluded longitudes lie strictly between the cell's vertices
		lo, hi := math.Inf(1), math.Inf(-1)
		lng := s1.EmptyInterval()
		for j := 0; j < 4; j++ {
			ll := s2.LatLngFromPoint(cell.Vertex(j))
			lo, hi = math.Min(lo, ll.Lat.Radians()), math.Max(hi, ll.Lat.Radians())
			lng = lng.AddPoint(ll.Lng.Radians())
		}
		if lng.Length() > 2 || lng.Length() == 0 {
			return rc, cell, nil, false
		}
		g := s2.LatLngFromPoint(cell.Center()).Lng.Radians()
		w := lng.Length() * (0.02 + 0.2*r.Float64())
		marg := (hi - lo) * (0.05 + r.Float64())
		rc = s2.Rect{Lat: r1.Interval{Lo: math.Max(-math.Pi/2, lo-marg), Hi: math.Min(math.Pi/2, hi+marg)},
			Lng: s1.IntervalFromEndpoints(math.Remainder(g+w, 2*math.Pi), math.Remainder(g-w, 2*math.Pi))}
	}
	if !rc.IsValid() || rc.IsEmpty() {
		return rc, cell, nil, false
	}
	return rc, cell, pts, true
}

// fineBoundRegion is a user-defined Region: it behaves like the region it wraps, except that its
// CellUnionBound is a fine covering of several hundred cells (any Region implementation may return one).
type fineBoundRegion struct {
	s2.Region
	bound []s2.CellID
}

func (f fineBoundRegion) CellUnionBound() []s2.CellID { return append([]s2.CellID(nil), f.bound...) }

func genRegion(r *rand.Rand) *region {
	ctr := gen.RandCenter(r)
	size := gen.LogUniform(r, 1e-7, 1.4)
	if r.Intn(3) == 0 {
		size = 0.05 + r.Float64()
	}
	if r.Intn(12) != 0 {
		return genRegionAt(r, ctr, size)
	}
	// a RegionUnion of 2..4 regions of any kind, close to each other or far apart
	var members []*region
	var ru s2.RegionUnion
	for k := 2 + r.Intn(3); k > 0; k-- {
		at := ctr
		switch r.Intn(3) {
		case 0:
			at = gen.Near(r, ctr, size*2*r.Float64())
		case 1:
			at = gen.RandCenter(r)
		}
		m := genRegionAt(r, at, size*gen.LogUniform(r, 0.1, 1))
		if m == nil || m.kind == "CapWithFineCellUnionBound" {
			continue
		}
		members = append(members, m)
		ru = append(ru, m.r)
	}
	if len(members) < 2 {
		return nil
	}
	rg := &region{center: ctr, kind: "RegionUnion", r: ru, pointsExact: true}
	kinds := ""
	for _, m := range members {
		kinds += m.kind + " "
		for _, p := range m.points {
			if m.in == nil || m.in(p) {
				rg.points = append(rg.points, p)
			}
		}
		rg.cells = append(rg.cells, m.cells...)
		rg.diam = math.Max(rg.diam, math.Min(math.Pi, 2*ctr.Distance(m.center).Radians()+m.diam)) // the extent of the whole union
	}
	rg.in = func(p s2.Point) bool {
		for _, m := range members {
			if m.in != nil && m.in(p) {
				return true
			}
		}
		return false
	}
	rg.desc = func() any {
		var ds []any
		for _, m := range members {
			ds = append(ds, map[string]any{"kind": m.kind, "detail": m.desc()})
		}
		return map[string]any{"members": kinds, "member_details": ds}
	}
	return rg
}

func genRegionAt(r *rand.Rand, ctr s2.Point, size float64) *region {
	rg := &region{center: ctr}
	switch r.Intn(11) {
	case 0, 1: // cap
		rad := size
		if r.Intn(8) == 0 {
			rad = math.Pi - gen.LogUniform(r, 1e-6, 1) // nearly the whole sphere
		}
		cp := s2.CapFromCenterAngle(ctr, s1.Angle(rad))
		var extra []s2.Point
		if r.Intn(3) == 0 {
			if lc, cell, pts, ok := lensCap(r, ctr); ok {
				cp, ctr, rad, extra = lc, lc.Center(), lc.Radius().Radians(), pts
				rg.cells = append(rg.cells, cell)
				rg.center = ctr
			}
		}
		rg.r, rg.kind, rg.diam = cp, "Cap", 2*rad
		rg.in = cp.ContainsPoint
		rg.points = append(rg.points, extra...)
		if len(extra) == 0 && rad < 1.5 && r.Intn(4) == 0 {
			// the same cap behind a user-defined Region whose CellUnionBound is a covering of hundreds of cells
			lvl := s2.MinWidthMetric.MaxLevel(2 * rad / float64(10+r.Intn(20)))
			if lvl > 30 {
				lvl = 30
			}
			fine := (&s2.RegionCoverer{MinLevel: lvl, MaxLevel: lvl, LevelMod: 1, MaxCells: 1 << 20}).Covering(cp)
			if len(fine) > 60 && len(fine) < 5000 {
				rg.r, rg.kind = fineBoundRegion{Region: cp, bound: fine}, "CapWithFineCellUnionBound"
			}
		}
		for k := 0; k < 12; k++ {
			rg.points = append(rg.points, gen.Near(r, ctr, rad*(1-1e-15)), gen.Near(r, ctr, rad*r.Float64()))
		}
		rg.points = append(rg.points, ctr)
		rg.desc = func() any { return map[string]any{"cap_center": gen.Hex(ctr), "cap_radius": rad} }
	case 2: // rectangle
		lat0 := math.Max(-math.Pi/2, s2.LatLngFromPoint(ctr).Lat.Radians()-size*r.Float64())
		lat1 := math.Min(math.Pi/2, lat0+size*(0.1+r.Float64()))
		lo := s2.LatLngFromPoint(ctr).Lng.Radians()
		width := math.Min(2*math.Pi-1e-9, size*(0.1+2*r.Float64()))
		rc := s2.Rect{Lat: r1.Interval{Lo: lat0, Hi: lat1}, Lng: s1.IntervalFromEndpoints(lo, math.Remainder(lo+width, 2*math.Pi))}
		if !rc.IsValid() || rc.IsEmpty() {
			return nil
		}
		var extra []s2.Point
		if r.Intn(3) == 0 {
			if lr, cell, pts, ok := lensRect(r, ctr); ok {
				rc, extra = lr, pts
				lat0, lat1, lo, width = rc.Lat.Lo, rc.Lat.Hi, rc.Lng.Lo, rc.Lng.Length()
				rg.cells = append(rg.cells, cell)
			}
		}
		rg.r, rg.kind, rg.diam = rc, "Rect", math.Max(lat1-lat0, width)
		rg.in = rc.ContainsPoint
		rg.points = append(rg.points, extra...)
		for k := 0; k < 4; k++ {
			rg.points = append(rg.points, s2.PointFromLatLng(rc.Vertex(k)))
		}
		for k := 0; k < 12; k++ {
			rg.points = append(rg.points, s2.PointFromLatLng(s2.LatLng{Lat: s1.Angle(lat0 + (lat1-lat0)*r.Float64()), Lng: s1.Angle(math.Remainder(lo+width*r.Float64(), 2*math.Pi))}))
		}
		rg.desc = func() any {
			return map[string]any{"rect": fmt.Sprintf("lat[%x,%x] lng[%x,%x]", rc.Lat.Lo, rc.Lat.Hi, rc.Lng.Lo, rc.Lng.Hi)}
		}
	case 3: // cell
		cell := s2.CellFromCellID(s2.CellFromPoint(ctr).ID().Parent(r.Intn(31)))
		rg.r, rg.kind, rg.diam = cell, "Cell", cell.Vertex(0).Distance(cell.Vertex(2)).Radians()
		rg.in = cell.ContainsPoint // closed membership in (u,v) space
		for k := 0; k < 4; k++ {
			rg.points = append(rg.points, cell.Vertex(k), s2.Point{Vector: cell.Vertex(k).Add(cell.Vertex((k + 1) % 4).Vector).Normalize()})
		}
		rg.points = append(rg.points, cell.Center())
		rg.desc = func() any { return map[string]any{"cell": cell.ID().ToToken()} }
	case 4: // cell union
		var cu s2.CellUnion
		base := s2.CellFromPoint(ctr).ID().Parent(r.Intn(20))
		for k := 0; k < 1+r.Intn(8); k++ {
			id := base
			for j := 0; j < r.Intn(5) && !id.IsLeaf(); j++ {
				id = id.Children()[r.Intn(4)]
			}
			if r.Intn(4) == 0 {
				id = id.EdgeNeighbors()[r.Intn(4)]
			}
			cu = append(cu, id)
		}
		cu.Normalize()
		rg.r, rg.kind = &cu, "CellUnion"
		rg.diam = 4 * s2.CellFromCellID(base).Vertex(0).Distance(s2.CellFromCellID(base).Vertex(2)).Radians()
		rg.in = nil
		for _, id := range cu {
			cell := s2.CellFromCellID(id)
			for k := 0; k < 4; k++ {
				rg.points = append(rg.points, cell.Vertex(k))
			}
			rg.points = append(rg.points, cell.Center())
		}
		ids := append(s2.CellUnion(nil), cu...)
		rg.in = func(p s2.Point) bool {
			for _, id := range ids {
				if s2.CellFromCellID(id).ContainsPoint(p) {
					return true
				}
			}
			return false
		}
		rg.desc = func() any {
			var t []string
			for _, id := range ids {
				t = append(t, id.ToToken())
			}
			return map[string]any{"cell_union": t}
		}
	case 5, 6: // loop
		sp := gen.RandLoopSpec(r, 150)
		l := sp.Loop()
		model := ref.NewLoopModel(gen.Vs(sp.Vs), origin, gen.RefDir)
		rg.r, rg.kind, rg.diam, rg.center = l, "Loop", 2*sp.RMax, sp.Center
		rg.in = func(p s2.Point) bool { return model.Contains(gen.V(p)) }
		rg.points = append(rg.points, sp.Vs...)
		rg.points = append(rg.points, gen.BoundaryProbes(r, sp.Vs, 12)...)
		rg.points = append(rg.points, sp.Center)
		rg.desc = func() any {
			return map[string]any{"loop_kind": sp.Kind, "n": len(sp.Vs), "head": gen.HexAll(sp.Vs[:3]...)}
		}
	case 7: // polygon with holes
		if r.Intn(5) == 0 { // a polygon whose vertices are the corners of a cell: its vertices are centres of coarser cells
			cell := s2.CellFromCellID(s2.CellFromPoint(ctr).ID().Parent(2 + r.Intn(20)))
			p := s2.PolygonFromCell(cell)
			vs := []s2.Point{cell.Vertex(0), cell.Vertex(1), cell.Vertex(2), cell.Vertex(3)}
			model := ref.NewLoopModel(gen.Vs(vs), origin, gen.RefDir)
			rg.r, rg.kind, rg.diam = p, "CellPolygon", vs[0].Distance(vs[2]).Radians()
			rg.in = func(q s2.Point) bool { return model.Contains(gen.V(q)) }
			rg.points = append(append(rg.points, vs...), cell.Center())
			rg.points = append(rg.points, gen.BoundaryProbes(r, vs, 12)...)
			for k := 0; k < 8; k++ {
				rg.points = append(rg.points, gen.Near(r, cell.Center(), 0.45*rg.diam*r.Float64()))
			}
			rg.desc = func() any { return map[string]any{"polygon_from_cell": cell.ID().ToToken()} }
			break
		}
		if r.Intn(3) == 0 { // two separate discs, inverted once (nearly the whole sphere) or twice (the discs again)
			rad := math.Min(size, 0.5)
			x, y, z := gen.Frame(ctr)
			a := gen.StarLoop(r, gen.AtPolar(x, y, z, rad*1.3, 0), 3+r.Intn(12), rad*0.6, rad)
			b := gen.StarLoop(r, gen.AtPolar(x, y, z, rad*1.3, math.Pi), 3+r.Intn(12), rad*0.6, rad)
			p := s2.PolygonFromLoops([]*s2.Loop{a.Loop(), b.Loop()})
			ma, mb := ref.NewLoopModel(gen.Vs(a.Vs), origin, gen.RefDir), ref.NewLoopModel(gen.Vs(b.Vs), origin, gen.RefDir)
			inDiscs := func(q s2.Point) bool { return ma.Contains(gen.V(q)) != mb.Contains(gen.V(q)) }
			pts := append(append([]s2.Point{a.Center, b.Center}, a.Vs...), b.Vs...)
			pts = append(pts, gen.BoundaryProbes(r, a.Vs, 6)...)
			pts = append(pts, gen.BoundaryProbes(r, b.Vs, 6)...)
			p.Invert()
			rg.r, rg.kind, rg.diam = p, "PolygonInvertedOnce", 4
			rg.in = func(q s2.Point) bool { return !inDiscs(q) }
			if r.Intn(2) == 0 {
				p.Invert()
				rg.kind, rg.diam, rg.in = "PolygonInvertedTwice", 4.6*rad, inDiscs
			} else {
				for k := 0; k < 12; k++ {
					pts = append(pts, gen.Uniform(r))
				}
			}
			rg.points = pts
			rg.desc = func() any { return map[string]any{"discs_center": gen.Hex(ctr), "radius": rad, "kind": rg.kind} }
			break
		}
		p, in, pts := ringsPolygon(r, ctr, math.Min(size, 1.2))
		rg.r, rg.kind, rg.diam, rg.in, rg.points = p, "Polygon", 2*math.Min(size, 1.2), in, pts
		rg.desc = func() any { return map[string]any{"polygon_loops": p.NumLoops(), "center": gen.Hex(ctr)} }
	case 8: // polyline
		n := 2 + r.Intn(8)
		vs := []s2.Point{ctr}
		for len(vs) < n {
			var nx s2.Point
			switch r.Intn(4) {
			case 0: // long edge at constant latitude: its interior bulges poleward
				ll := s2.LatLngFromPoint(vs[len(vs)-1])
				nx = s2.PointFromLatLng(s2.LatLng{Lat: ll.Lat, Lng: ll.Lng + s1.Angle(0.3+1.5*r.Float64())}.Normalized())
			case 1:
				nx = gen.Near(r, vs[len(vs)-1], 0.5+r.Float64())
			default:
				nx = gen.Near(r, vs[len(vs)-1], size*(0.1+r.Float64()))
			}
			if nx != vs[len(vs)-1] && !ref.Antipodal(gen.V(nx), gen.V(vs[len(vs)-1])) {
				vs = append(vs, nx)
			}
		}
		pl := s2.Polyline(vs)
		rg.r, rg.kind, rg.in = &pl, "Polyline", nil
		rg.diam = pl.Length().Radians()
		rg.points = append(rg.points, vs...)
		for i := 0; i+1 < n; i++ {
			for _, t := range []float64{0.5, 0.25, 0.75, r.Float64(), r.Float64()} {
				rg.points = append(rg.points, s2.Interpolate(t, vs[i], vs[i+1]))
			}
		}
		rg.desc = func() any { return map[string]any{"polyline": gen.HexAll(vs...)} }
	case 10: // full and empty regions of each kind
		all := func(s2.Point) bool { return true }
		none := func(s2.Point) bool { return false }
		which := r.Intn(8)
		switch which {
		case 0:
			rg.r, rg.kind, rg.in = s2.FullCap(), "FullCap", all
		case 1:
			rg.r, rg.kind, rg.in = s2.FullRect(), "FullRect", all
		case 2:
			rg.r, rg.kind, rg.in = s2.FullLoop(), "FullLoop", all
		case 3:
			rg.r, rg.kind, rg.in = s2.FullPolygon(), "FullPolygon", all
		case 4:
			rg.r, rg.kind, rg.in = s2.EmptyCap(), "EmptyCap", none
		case 5:
			rg.r, rg.kind, rg.in = s2.EmptyRect(), "EmptyRect", none
		case 6:
			rg.r, rg.kind, rg.in = s2.EmptyLoop(), "EmptyLoop", none
		default:
			rg.r, rg.kind, rg.in = s2.PolygonFromLoops(nil), "EmptyPolygon", none
		}
		rg.diam = 4
		for k := 0; k < 20; k++ {
			rg.points = append(rg.points, gen.Special(r), gen.Uniform(r))
		}
		rg.desc = func() any { return rg.kind }
	default: // point
		rg.r, rg.kind, rg.in, rg.diam = ctr, "Point", nil, 1e-9
		rg.points = []s2.Point{ctr}
		rg.desc = func() any { return map[string]any{"point": gen.Hex(ctr)} }
	}
	return rg
}

func cellSamples(r *rand.Rand, c s2.Cell) []s2.Point {
	v := [4]s2.Point{c.Vertex(0), c.Vertex(1), c.Vertex(2), c.Vertex(3)}
	ps := []s2.Point{c.Center()}
	for k := 0; k < 4; k++ {
		ps = append(ps, v[k], s2.Point{Vector: v[k].Add(v[(k+1)%4].Vector).Normalize()})
	}
	for i := 0; i < 3; i++ {
		a, b := r.Float64(), r.Float64()
		p := v[0].Mul((1 - a) * (1 - b)).Add(v[1].Mul(a * (1 - b))).Add(v[2].Mul(a * b)).Add(v[3].Mul((1 - a) * b))
		ps = append(ps, s2.Point{Vector: p.Normalize()})
	}
	return ps
}

func coverCase(c *mon.Case) {
	r := c.R
	rg := genRegion(r)
	if rg == nil {
		return
	}
	// options
	own := s2.MinWidthMetric.MaxLevel(rg.diam / 30) // below this level a covering legitimately has > ~10^3-10^4 cells
	if own > 30 {
		own = 30
	}
	if own < 0 {
		own = 0
	}
	minLevel := 0
	if r.Intn(2) == 0 {
		minLevel = r.Intn(own + 1)
	}
	maxLevel := minLevel + r.Intn(31-minLevel)
	if r.Intn(3) == 0 {
		maxLevel = 30
	}
	levelMod := 1 + r.Intn(3)
	maxCells := []int{1, 2, 3, 4, 8, 50, 500}[r.Intn(7)]
	rc := &s2.RegionCoverer{MinLevel: minLevel, MaxLevel: maxLevel, LevelMod: levelMod, MaxCells: maxCells}
	det := func(extra map[string]any) any {
		d := map[string]any{"region": rg.kind, "region_detail": rg.desc(), "min_level": minLevel, "max_level": maxLevel, "level_mod": levelMod, "max_cells": maxCells}
		for k, v := range extra {
			d[k] = v
		}
		return d
	}
	if c.I < 3 {
		c.Sample(det(nil))
	}
	c.Count("region."+rg.kind, 1)
	if levelMod > 1 {
		c.Count("config.levelmod_gt1", 1)
	}
	if levelMod > 1 || minLevel > 0 || maxLevel < own {
		c.Distinct(uint64(c.I))
	}
	levelOK := func(name string, cu s2.CellUnion) {
		for _, id := range cu {
			l := id.Level()
			if !id.IsValid() || l < minLevel || l > maxLevel || (l-minLevel)%levelMod != 0 {
				which := "level-mod"
				if l > maxLevel {
					which = "above-max-level"
				} else if l < minLevel {
					which = "below-min-level"
				}
				c.Violation(name+"/level/"+which+"/wrong-answer", fmt.Sprintf("%s returned cell %s at level %d (MinLevel %d, MaxLevel %d, LevelMod %d)", name, id.ToToken(), l, minLevel, maxLevel, levelMod), det(map[string]any{"cells": len(cu)}))
				return
			}
		}
	}
	covers := func(name string, cu s2.CellUnion) {
		cells := make([]s2.Cell, len(cu))
		for i, id := range cu {
			cells[i] = s2.CellFromCellID(id)
		}
		for _, p := range rg.points {
			if !rg.pointsExact && rg.in != nil && !rg.in(p) {
				continue // a generated boundary probe that is not a point of the region
			}
			c.Count("region_points.checked", 1)
			ok := false
			for i := range cells {
				if cells[i].ContainsPoint(p) {
					ok = true
					break
				}
			}
			if !ok {
				c.Violation(name+"/does-not-cover/"+rg.kind+"/wrong-answer", fmt.Sprintf("no cell of the %s (%d cells) contains a point of the %s", name, len(cu), rg.kind), det(map[string]any{"point": gen.Hex(p), "cells": len(cu)}))
				return
			}
		}
	}
	cov := rc.Covering(rg.r)
	c.Count("coverings.checked", 1)
	levelOK("Covering", cov)
	covers("Covering", cov)
	// the normalized form: covers, is normalized, no cell above MaxLevel (MinLevel/LevelMod do not apply)
	cu := rc.CellUnion(rg.r)
	covers("CellUnion", cu)
	if !cu.IsNormalized() {
		c.Violation("CellUnion/not-normalized/wrong-answer", "RegionCoverer.CellUnion returned a cell union that is not normalized", det(map[string]any{"cells": len(cu)}))
	}
	for _, id := range cu {
		if id.Level() > maxLevel {
			c.Violation("CellUnion/level/above-max-level/wrong-answer", fmt.Sprintf("RegionCoverer.CellUnion returned a cell at level %d, MaxLevel is %d", id.Level(), maxLevel), det(nil))
			break
		}
	}
	// (canonical form is not part of C05's statement: only counted)
	if !rc.IsCanonical(cov) {
		c.Count("coverings.not_canonical", 1)
	}
	fast := rc.FastCovering(rg.r)
	if !rc.IsCanonical(fast) {
		c.Count("fast.not_canonical", 1)
	}
	c.Count("fast.checked", 1)
	levelOK("FastCovering", fast)
	covers("FastCovering", fast)
	// interior covering: bound the work (MaxLevel at most a few levels below the region's own scale)
	if rg.in != nil && rg.kind != "Point" {
		irc := &s2.RegionCoverer{MinLevel: minLevel, MaxLevel: minInt(maxLevel, own+3), LevelMod: levelMod, MaxCells: minInt(maxCells, 50)}
		if irc.MaxLevel >= irc.MinLevel {
			if icu := irc.InteriorCellUnion(rg.r); !icu.IsNormalized() {
				c.Violation("InteriorCellUnion/not-normalized/wrong-answer", "InteriorCellUnion returned a cell union that is not normalized", det(nil))
			} else {
				for _, id := range icu {
					for _, p := range cellSamples(r, s2.CellFromCellID(id)) {
						if !rg.in(p) {
							c.Violation("InteriorCellUnion/cell-not-inside/"+rg.kind+"/wrong-answer", fmt.Sprintf("a point of InteriorCellUnion cell %s is not in the %s", id.ToToken(), rg.kind), det(map[string]any{"point": gen.Hex(p)}))
							break
						}
					}
				}
			}
			ic := irc.InteriorCovering(rg.r)
			for _, id := range ic {
				l := id.Level()
				if l < irc.MinLevel || l > irc.MaxLevel || (l-irc.MinLevel)%levelMod != 0 {
					c.Violation("InteriorCovering/level/wrong-answer", fmt.Sprintf("InteriorCovering returned a cell at level %d (MinLevel %d, MaxLevel %d, LevelMod %d)", l, irc.MinLevel, irc.MaxLevel, levelMod), det(nil))
					break
				}
				cell := s2.CellFromCellID(id)
				c.Count("interior.cells_checked", 1)
				for _, p := range cellSamples(r, cell) {
					if !rg.in(p) {
						c.Violation("InteriorCovering/cell-not-inside/"+rg.kind+"/wrong-answer", fmt.Sprintf("a point of interior-covering cell %s is not in the %s", id.ToToken(), rg.kind), det(map[string]any{"point": gen.Hex(p), "cell": id.ToToken()}))
						break
					}
				}
			}
		}
	}
	// one-sided safety of the region predicates on cells that graze the region
	for k := -len(rg.cells); k < 10 && len(rg.points) > 0; k++ {
		var id s2.CellID
		if k < 0 {
			id = rg.cells[-k-1].ID()
			c.Count("predicate.lens_cells", 1)
		} else {
			p := rg.points[r.Intn(len(rg.points))]
			lvl := own - 3 + r.Intn(8)
			if lvl < 0 {
				lvl = 0
			}
			if lvl > 30 {
				lvl = 30
			}
			id = s2.CellFromPoint(p).ID().Parent(lvl)
			if r.Intn(3) == 0 {
				id = id.EdgeNeighbors()[r.Intn(4)]
			}
		}
		cell := s2.CellFromCellID(id)
		c.Count("predicate.cells_checked", 1)
		contains, intersects := rg.r.ContainsCell(cell), rg.r.IntersectsCell(cell)
		if contains {
			c.Count("predicate.contains_true", 1)
		}
		if !intersects {
			c.Count("predicate.intersects_false", 1)
		}
		if contains && !intersects {
			c.Violation("predicates/ContainsCell-without-IntersectsCell/"+rg.kind+"/wrong-answer", "ContainsCell is true but IntersectsCell is false", det(map[string]any{"cell": id.ToToken()}))
		}
		if contains && rg.in != nil {
			for _, s := range cellSamples(r, cell) {
				if !rg.in(s) {
					c.Violation("predicates/ContainsCell-but-cell-point-outside/"+rg.kind+"/wrong-answer", fmt.Sprintf("%s.ContainsCell(%s) is true but a point of the cell is not in the region", rg.kind, id.ToToken()), det(map[string]any{"cell": id.ToToken(), "point": gen.Hex(s)}))
					break
				}
			}
		}
		if !intersects {
			// no point of the region may lie in the (closed) cell
			bad := s2.Point{}
			found := false
			for _, s := range rg.points {
				if (rg.pointsExact || rg.in == nil || rg.in(s)) && inCellStrict(cell, s) {
					bad, found = s, true
					break
				}
			}
			if !found && rg.in != nil {
				for _, s := range cellSamples(r, cell) {
					if rg.in(s) && inCellStrict(cell, s) {
						bad, found = s, true
						break
					}
				}
			}
			if found {
				c.Violation("predicates/IntersectsCell-false-but-common-point/"+rg.kind+"/wrong-answer", fmt.Sprintf("%s.IntersectsCell(%s) is false but a point of the region lies in the cell", rg.kind, id.ToToken()), det(map[string]any{"cell": id.ToToken(), "point": gen.Hex(bad)}))
			}
		}
	}
}

// inCellStrict: strictly inside the quadrilateral of the cell's vertices (so that rounded samples of a
// polyline edge or of a boundary cannot be "in" a cell they only touch).
func inCellStrict(c s2.Cell, p s2.Point) bool {
	for k := 0; k < 4; k++ {
		if ref.Orient(gen.V(c.Vertex(k)), gen.V(c.Vertex((k+1)%4)), gen.V(p)) <= 0 {
			return false
		}
	}
	// and not within 1e-14 rad of the boundary
	for k := 0; k < 4; k++ {
		a, b := c.Vertex(k), c.Vertex((k+1)%4)
		n := a.Add(b.Vector).Cross(b.Sub(a.Vector)).Normalize()
		if math.Abs(p.Dot(n)) < 1e-14 {
			return false
		}
	}
	return true
}

func minInt(a, b int) int {
	if a < b {
		return a
	}
	return b
}
