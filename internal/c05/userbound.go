package c05

import (
	"fmt"
	"math/rand"
	"sort"

	"github.com/golang/geo/s2"

	"verif/internal/mon"
)

// Stream "userbound": FastCovering of a user-defined Region whose CellUnionBound is an arbitrary cell list
// (mixed levels down to leaf cells, first/last descendants of their ancestors, duplicates, nested cells) - any
// Region implementation may return one. FastCovering has to terminate, cover the bound (hence the region)
// and respect the level options. The cases run in child processes with a CPU-time budget (RLIMIT_CPU, not
// wall-clock): a call that never returns ends as a dead child whose journal names the case.

const ubStream = "userbound"

// boundRegion is the region made of the listed cells; its CellUnionBound is the list as given.
type boundRegion struct {
	s2.Region
	bound []s2.CellID
}

func (b boundRegion) CellUnionBound() []s2.CellID { return append([]s2.CellID(nil), b.bound...) }

func runUserBound(m *mon.M) {
	onDeath := func(d mon.Death) (string, string, any) {
		sev := "fatal"
		if d.Kind == "killed" {
			sev = "does-not-return"
		}
		_, ids, rc := userBoundInput(rand.New(rand.NewSource(mon.CaseSeed(m.Seed, ubStream, d.Index))))
		toks := make([]string, len(ids))
		for i, id := range ids {
			toks[i] = id.ToToken()
		}
		return "FastCovering/user-defined-bound/" + sev + "/" + mon.Shorten(d.Stderr),
			fmt.Sprintf("the process computing FastCovering of a region whose CellUnionBound is the listed cells died (%s; the CPU-time budget of a batch is 100 s, a batch needs < 5 s): %s", d.Exit, d.Stderr),
			map[string]any{"cell_union_bound_tokens": toks, "min_level": rc.MinLevel, "max_level": rc.MaxLevel, "level_mod": rc.LevelMod, "max_cells": rc.MaxCells, "child": d.Exit}
	}
	if st, idx, ok := m.ReplayIndex(); ok {
		if st == ubStream {
			mon.RunChildren(m, "c05", ubStream, idx, idx+1, 1, onDeath)
		}
		return
	}
	mon.RunChildren(m, "c05", ubStream, 0, int64(m.N(40000, 1500000)), 8, onDeath)
	m.Require("userbound.checked", 30000)
	m.Require("userbound.with_leaf_first_descendant", 3000)
	m.Require("userbound.reduced_to_max_cells", 3000)
}

// Worker is the child entry point: mon worker c05 <lo> <hi> <out> <journal>.
func Worker(args []string) { mon.ChildMain("C05", ubStream, args, 8<<30, 100, userBoundCase) }

func userBoundInput(r *rand.Rand) (leafFirst bool, ids []s2.CellID, rc *s2.RegionCoverer) {
	face := r.Intn(6)
	anc := s2.CellIDFromFace(face)
	for l, top := 0, r.Intn(29); l < top; l++ {
		anc = anc.Children()[r.Intn(4)]
	}
	n := 2 + r.Intn(24)
	if r.Intn(6) == 0 {
		n = 30 + r.Intn(120)
	}
	descend := func(id s2.CellID, to int, mode int) s2.CellID {
		for id.Level() < to {
			k := r.Intn(4)
			switch mode {
			case 0:
				k = 0 // first descendant
			case 1:
				k = 3 // last descendant
			}
			id = id.Children()[k]
		}
		return id
	}
	for i := 0; i < n; i++ {
		start := anc
		if r.Intn(3) == 0 && len(ids) > 0 { // below (or equal to) an ancestor of a cell already listed
			p := ids[r.Intn(len(ids))]
			if p.Level() > anc.Level() {
				start = p.Parent(anc.Level() + r.Intn(p.Level()-anc.Level()+1))
			}
		}
		to := 30
		if r.Intn(3) == 0 {
			to = start.Level() + r.Intn(31-start.Level())
		}
		mode := r.Intn(4) // 0 first, 1 last, 2,3 random
		if start.Level() < to && mode < 2 && r.Intn(2) == 0 {
			start = start.Children()[r.Intn(4)] // first/last descendant of a proper sub-cell
		}
		id := descend(start, to, mode)
		if mode == 0 && id.IsLeaf() {
			leafFirst = true
		}
		ids = append(ids, id)
	}
	minLevel := 0
	if r.Intn(3) == 0 {
		minLevel = r.Intn(anc.Level() + 1)
	}
	maxLevel := minLevel + r.Intn(31-minLevel)
	if r.Intn(2) == 0 {
		maxLevel = 30
	}
	rc = &s2.RegionCoverer{MinLevel: minLevel, MaxLevel: maxLevel, LevelMod: 1 + r.Intn(3), MaxCells: []int{1, 2, 3, 4, 8, 20, 100}[r.Intn(7)]}
	return
}

func userBoundCase(c *mon.Case) {
	leafFirst, ids, rc := userBoundInput(c.R)
	cu := s2.CellUnion(append([]s2.CellID(nil), ids...))
	cu.Normalize()
	rg := boundRegion{Region: &cu, bound: ids}
	det := func() any {
		toks := make([]string, len(ids))
		for i, id := range ids {
			toks[i] = id.ToToken()
		}
		return map[string]any{"cell_union_bound_tokens": toks, "min_level": rc.MinLevel, "max_level": rc.MaxLevel, "level_mod": rc.LevelMod, "max_cells": rc.MaxCells}
	}
	if c.I < 2 {
		c.Sample(det())
	}
	fast := rc.FastCovering(rg)
	c.Count("userbound.checked", 1)
	if leafFirst {
		c.Count("userbound.with_leaf_first_descendant", 1)
	}
	if len(cu) > rc.MaxCells && len(fast) <= rc.MaxCells {
		c.Count("userbound.reduced_to_max_cells", 1)
	}
	c.Distinct(uint64(c.I))
	for _, id := range fast {
		l := id.Level()
		if !id.IsValid() || l < rc.MinLevel || l > rc.MaxLevel || (l-rc.MinLevel)%rc.LevelMod != 0 {
			c.Violation("FastCovering/user-defined-bound/level/wrong-answer", fmt.Sprintf("FastCovering returned cell %s at level %d (MinLevel %d, MaxLevel %d, LevelMod %d)", id.ToToken(), l, rc.MinLevel, rc.MaxLevel, rc.LevelMod), det())
			break
		}
	}
	// every listed cell lies inside one cell of the result (exact on ids: the bound cells are the region)
	sorted := append([]s2.CellID(nil), fast...)
	sort.Slice(sorted, func(i, j int) bool { return sorted[i] < sorted[j] })
	for _, id := range ids {
		ok := false
		for _, f := range sorted {
			if f.Contains(id) {
				ok = true
				break
			}
		}
		c.Count("userbound.bound_cells_checked", 1)
		if !ok {
			d := det().(map[string]any)
			d["uncovered_cell"] = id.ToToken()
			c.Violation("FastCovering/user-defined-bound/does-not-cover/wrong-answer", fmt.Sprintf("no cell of the FastCovering (%d cells) contains cell %s of the region", len(fast), id.ToToken()), d)
			break
		}
	}
}
