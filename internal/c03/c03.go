// Package c03 monitors C03: edge-crossing tests are exact, symmetric and
// independent of the traversal state of the incremental crosser.
package c03

import (
	"fmt"
	"math"
	"math/rand"

	"github.com/golang/geo/r3"
	"github.com/golang/geo/s2"

	"verif/internal/gen"
	"verif/internal/mon"
	"verif/internal/ref"
)

func refDir(v ref.V) ref.V { return gen.V(s2.Ortho(gen.P(v))) }

// antipodal: exactly opposite directions (not merely negated coordinates): such a pair is not an edge.
// antipodal: the pair is not an edge. Exactly antipodal directions, and also pairs whose exact cross product
// is smaller than the smallest positive float64 (about 5e-324): their plane cannot be represented by any
// float computation, the library (like its original) then takes an arbitrary perpendicular as the normal,
// i.e. treats the pair as antipodal. (One such pair, differing from antipodal by 1e-340, came out of the
// denormal pool in a thorough run.)
func antipodal(a, b s2.Point) bool {
	if ref.Antipodal(gen.V(a), gen.V(b)) {
		return true
	}
	if a.Dot(b.Vector) > -0.5 {
		return false
	}
	n2 := ref.HV(gen.V(a)).Cross(ref.HV(gen.V(b))).Norm2()
	return n2.Sign() == 0 || n2.MantExp(nil) < -2*1074
}

func Run(m *mon.M) {
	m.Rule = "quadruples from degenerate pools (one exact plane, duplicates, antipodes, ulp neighbours), shared-endpoint and collinear-beyond-the-endpoint constructions, and random operation words on one EdgeCrosser; a case is non-trivial and distinct when its bit pattern is new AND (the edges share a vertex, or some orientation of the four triangles is exactly degenerate, or the reference says Cross, or it is a crosser history with a restart/mixed call)"
	m.Assumptions = []string{"internal/ref exact orientation + derived symbolic perturbation (C02 cross-checks it)", "the library's Ortho() as the definition of the fixed reference direction of the vertex rule"}
	m.Require("quad.ref.cross", 1000)
	m.Require("quad.ref.maybe", 1000)
	m.Require("quad.degenerate_orientation", 1000)
	m.Require("hist.ops", 10000)
	m.Require("vc.exactly_one_checked", 1000)

	m.Stream("quad.pool", m.N(40000, 2000000), quadPool)
	m.Stream("quad.shared", m.N(600000, 30000000), quadShared)
	m.Stream("quad.collinear", m.N(200000, 10000000), quadCollinear)
	m.Stream("quad.denormal", m.N(60000, 3000000), quadDenormal)
	m.Stream("quad.tiny", m.N(60000, 3000000), quadTiny)
	m.Stream("hist", m.N(40000, 2000000), history)
}

func cs(x s2.Crossing) int { return int(x) }

func checkQuad(c *mon.Case, a, b, cc, d s2.Point) {
	if antipodal(a, b) || antipodal(cc, d) {
		c.Count("quad.skipped_antipodal_edge", 1) // not a geodesic edge: outside the property
		return
	}
	va, vb, vc, vd := gen.V(a), gen.V(b), gen.V(cc), gen.V(d)
	want := ref.CrossingSign(va, vb, vc, vd)
	det := func() any {
		return map[string]any{"a": gen.Hex(a), "b": gen.Hex(b), "c": gen.Hex(cc), "d": gen.Hex(d), "reference": want}
	}
	c.Count("quad.checked", 1)
	got := cs(s2.CrossingSign(a, b, cc, d))
	shared := a == cc || a == d || b == cc || b == d
	nontrivial := false
	switch want {
	case ref.Cross:
		c.Count("quad.ref.cross", 1)
		nontrivial = true
	case ref.MaybeCross:
		c.Count("quad.ref.maybe", 1)
		nontrivial = true
	}
	if !shared && (ref.DetSign(va, vc, vb) == 0 || ref.DetSign(vc, vb, vd) == 0 || ref.DetSign(vb, vd, va) == 0 || ref.DetSign(vd, va, vc) == 0) {
		c.Count("quad.degenerate_orientation", 1)
		nontrivial = true
	}
	if nontrivial {
		c.Distinct(gen.Bits(a, b, cc, d)...)
	}
	if got != want {
		kind := "four-orientation"
		if shared || got == ref.MaybeCross {
			kind = "maybe-iff-shared-endpoint"
		}
		c.Violation("CrossingSign/"+kind+"/wrong-answer", fmt.Sprintf("CrossingSign=%v reference=%v", s2.Crossing(got), s2.Crossing(want)), det())
	}
	if r := cs(s2.CrossingSign(b, a, cc, d)); r != got {
		c.Violation("CrossingSign/reverse-ab/wrong-answer", "CrossingSign(b,a,c,d) != CrossingSign(a,b,c,d)", det())
	}
	if r := cs(s2.CrossingSign(a, b, d, cc)); r != got {
		c.Violation("CrossingSign/reverse-cd/wrong-answer", "CrossingSign(a,b,d,c) != CrossingSign(a,b,c,d)", det())
	}
	if r := cs(s2.CrossingSign(cc, d, a, b)); r != got {
		c.Violation("CrossingSign/swap-edges/wrong-answer", "CrossingSign(c,d,a,b) != CrossingSign(a,b,c,d)", det())
	}
	// edge-or-vertex crossing against the reference rule
	wantEV := ref.EdgeOrVertexCrossing(va, vb, vc, vd, refDir)
	if gotEV := s2.EdgeOrVertexCrossing(a, b, cc, d); gotEV != wantEV {
		c.Violation("EdgeOrVertexCrossing/wrong-answer", fmt.Sprintf("EdgeOrVertexCrossing=%v reference=%v", gotEV, wantEV), det())
	}
	if shared {
		vc1 := s2.VertexCrossing(a, b, cc, d)
		if w := ref.VertexCrossing(va, vb, vc, vd, refDir); vc1 != w {
			c.Violation("VertexCrossing/rule/wrong-answer", fmt.Sprintf("VertexCrossing=%v reference=%v", vc1, w), det())
		}
		// law (3): invariance under reversing either edge
		if s2.VertexCrossing(a, b, d, cc) != vc1 || s2.VertexCrossing(b, a, cc, d) != vc1 || s2.VertexCrossing(b, a, d, cc) != vc1 {
			c.Violation("VertexCrossing/law3-reversal/wrong-answer", "VertexCrossing changes when an edge is reversed", det())
		}
		// law (1), (2)
		if a == b || cc == d {
			if vc1 {
				c.Violation("VertexCrossing/law1-degenerate/wrong-answer", "VertexCrossing true for a degenerate edge", det())
			}
		} else if (a == cc && b == d) || (a == d && b == cc) {
			if !vc1 {
				c.Violation("VertexCrossing/law2-same-edge/wrong-answer", "VertexCrossing false for identical edges", det())
			}
		} else {
			// exactly one shared vertex, both edges proper: exactly one direction counts
			other := s2.VertexCrossing(cc, d, a, b)
			c.Count("vc.exactly_one_checked", 1)
			if vc1 == other {
				c.Violation("VertexCrossing/law3prime-exactly-one/wrong-answer", fmt.Sprintf("VC(a,b,c,d)=%v and VC(c,d,a,b)=%v", vc1, other), det())
			}
		}
	}
}

func quadPool(c *mon.Case) {
	ps := gen.Pool(c.R, 6+c.R.Intn(5))
	if c.I < 2 {
		c.Sample(map[string]any{"pool": gen.HexAll(ps...)})
	}
	n := len(ps)
	for k := 0; k < 25; k++ {
		checkQuad(c, ps[c.R.Intn(n)], ps[c.R.Intn(n)], ps[c.R.Intn(n)], ps[c.R.Intn(n)])
	}
}

// quadShared: one shared endpoint, long and short edges at every angle; this
// is where the tangent early-exit must not pre-empt the shared-vertex answer.
func quadShared(c *mon.Case) {
	r := c.R
	a := gen.Uniform(r)
	var b s2.Point
	switch r.Intn(3) {
	case 0:
		b = gen.Uniform(r)
	case 1:
		b = gen.Near(r, a, gen.LogUniform(r, 1e-15, 3.1))
	default:
		b = gen.Near(r, s2.Point{Vector: a.Mul(-1)}, gen.LogUniform(r, 1e-10, 1))
	}
	d := gen.Uniform(r)
	if r.Intn(3) == 0 {
		d = gen.Near(r, a, gen.LogUniform(r, 1e-15, 1))
	}
	if r.Intn(4) == 0 {
		d = gen.OnGreatCircle(r, a, b, r.Float64()*3-1, r.Intn(3))
	}
	if c.I < 2 {
		c.Sample(map[string]any{"a": gen.Hex(a), "b": gen.Hex(b), "shared": "c=a or c=b", "d": gen.Hex(d)})
	}
	if r.Intn(2) == 0 {
		checkQuad(c, a, b, a, d)
	} else {
		checkQuad(c, a, b, b, d)
	}
}

// quadDenormal: points with one or two zero coordinates (axes, coordinate planes, face diagonals) whose
// zeros are replaced by denormal-scale values, and their exact twins: the orientation determinants of such
// quadruples cancel from terms of size 1 down to about 2^-2148, far beyond any fixed few-thousand-bit budget.
func quadDenormal(c *mon.Case) {
	r := c.R
	base := func() s2.Point {
		if r.Intn(3) == 0 {
			return gen.OnPlane(r, r.Intn(3)) // one coordinate exactly zero
		}
		return gen.Special(r)
	}
	a := base()
	b := gen.Denormalize(r, a)
	cc := gen.Denormalize(r, base())
	d := gen.Denormalize(r, base())
	switch r.Intn(4) {
	case 0:
		d = gen.Uniform(r)
	case 1:
		d = gen.Denormalize(r, s2.Point{Vector: a.Mul(-1)})
	}
	if r.Intn(2) == 0 {
		a = gen.Denormalize(r, a)
	}
	if c.I < 2 {
		c.Sample(map[string]any{"a": gen.Hex(a), "b": gen.Hex(b), "c": gen.Hex(cc), "d": gen.Hex(d)})
	}
	switch r.Intn(4) {
	case 0:
		checkQuad(c, a, cc, b, d)
	case 1:
		checkQuad(c, a, cc, a, d)
	case 2:
		checkQuad(c, a, cc, b, cc)
	default:
		checkQuad(c, a, b, cc, d)
	}
}

// quadTiny (round 9): four points next to one axis whose two small coordinates are rounded multiples
// t*(u,v) of one direction of scale 2^-600..2^-150: collinear up to rounding, with squared edge lengths that
// are normal floats one by one while their products underflow (the regime between "denormal" and "tiny").
func quadTiny(c *mon.Case) {
	r := c.R
	e := -600 + r.Intn(451)
	u := math.Ldexp(1+r.Float64(), e)
	v := math.Ldexp(1+r.Float64(), e-r.Intn(3))
	if r.Intn(2) == 0 {
		v = -v
	}
	ax := r.Intn(3)
	sg := float64(1 - 2*r.Intn(2))
	mk := func() s2.Point {
		t := float64(r.Intn(2001) - 1000)
		co := [3]float64{}
		co[ax] = sg
		co[(ax+1)%3] = t * u
		co[(ax+2)%3] = t * v
		if r.Intn(4) == 0 {
			co[(ax+1)%3] = math.Nextafter(co[(ax+1)%3], float64(r.Intn(3)-1))
		}
		return s2.Point{Vector: r3.Vector{X: co[0], Y: co[1], Z: co[2]}}
	}
	a, b, cc, d := mk(), mk(), mk(), mk()
	if r.Intn(3) == 0 {
		// d off the line, so that AB and CD cross properly at a tiny angle
		d = s2.Point{Vector: r3.Vector{X: d.X, Y: d.Y, Z: d.Z}}
		co := []*float64{&d.X, &d.Y, &d.Z}
		*co[(ax+1)%3] += float64(r.Intn(7)-3) * v
	}
	if c.I < 2 {
		c.Sample(map[string]any{"a": gen.Hex(a), "b": gen.Hex(b), "c": gen.Hex(cc), "d": gen.Hex(d)})
	}
	checkQuad(c, a, b, cc, d)
}

// quadCollinear: four points on one great circle (rounded, +-ulps), CD beyond
// an endpoint of AB, overlapping AB, or nested in it.
func quadCollinear(c *mon.Case) {
	r := c.R
	a := gen.Uniform(r)
	b := gen.Near(r, a, gen.LogUniform(r, 1e-12, 3))
	t1, t2 := r.Float64()*4-1.5, r.Float64()*4-1.5
	if r.Intn(3) == 0 {
		t1 = []float64{0, 1, -0.5, 1.5, 0.5}[r.Intn(5)]
	}
	cc := gen.OnGreatCircle(r, a, b, t1, r.Intn(3))
	d := gen.OnGreatCircle(r, a, b, t2, r.Intn(3))
	if c.I < 2 {
		c.Sample(map[string]any{"a": gen.Hex(a), "b": gen.Hex(b), "c": gen.Hex(cc), "d": gen.Hex(d)})
	}
	checkQuad(c, a, b, cc, d)
}

// history: random operation words on one crosser, shadowed by the current
// chain vertex only; every answer must equal the stateless reference.
func history(c *mon.Case) {
	r := c.R
	var ps []s2.Point
	if r.Intn(2) == 0 {
		ps = gen.Pool(r, 6+r.Intn(4))
	} else {
		// a finely sampled chain that wanders across AB
		a, b := gen.Uniform(r), gen.Uniform(r)
		ps = []s2.Point{a, b}
		for i := 0; i < 8; i++ {
			ps = append(ps, gen.OnGreatCircle(r, a, b, r.Float64()*2-0.5, 0))
			ps = append(ps, gen.Near(r, ps[len(ps)-1], gen.LogUniform(r, 1e-16, 0.5)))
		}
	}
	n := len(ps)
	a, b := ps[0], ps[1]
	if r.Intn(3) == 0 {
		a, b = ps[r.Intn(n)], ps[r.Intn(n)]
	}
	if antipodal(a, b) {
		return
	}
	va, vb := gen.V(a), gen.V(b)
	var cr *s2.EdgeCrosser
	var cur s2.Point
	haveCur := false
	var word []string
	if r.Intn(2) == 0 {
		cur = ps[r.Intn(n)]
		cr = s2.NewChainEdgeCrosser(a, b, cur)
		haveCur = true
		word = append(word, "NewChain")
	} else {
		cr = s2.NewEdgeCrosser(a, b)
		word = append(word, "New")
	}
	pick := func() s2.Point {
		if haveCur && r.Intn(5) == 0 {
			return cur
		}
		return ps[r.Intn(n)]
	}
	pickNot := func(prev s2.Point) s2.Point {
		for k := 0; ; k++ {
			d := pick()
			if !antipodal(prev, d) || k > 20 {
				return d
			}
		}
	}
	steps := 10 + r.Intn(40)
	mixed := false
	for s := 0; s < steps; s++ {
		op := r.Intn(5)
		if !haveCur && (op == 1 || op == 4) {
			op = 2
		}
		fail := func(name string, got, want any, cpt, d s2.Point) {
			c.Violation("EdgeCrosser/"+name+"/history/wrong-answer", fmt.Sprintf("%s after %d earlier calls returned %v, stateless reference %v", name, len(word), got, want),
				map[string]any{"a": gen.Hex(a), "b": gen.Hex(b), "c": gen.Hex(cpt), "d": gen.Hex(d), "history": append([]string(nil), word...)})
		}
		switch op {
		case 0:
			p := pick()
			cr.RestartAt(p)
			cur, haveCur = p, true
			word = append(word, "RestartAt")
			mixed = true
		case 1:
			d := pickNot(cur)
			got := cs(cr.ChainCrossingSign(d))
			want := ref.CrossingSign(va, vb, gen.V(cur), gen.V(d))
			word = append(word, "ChainCrossingSign")
			if got != want {
				fail("ChainCrossingSign", s2.Crossing(got), s2.Crossing(want), cur, d)
			}
			cur = d
		case 2:
			var p s2.Point
			if haveCur && r.Intn(3) == 0 {
				p = cur // continues the chain through the non-chain entry point
			} else {
				p = pick()
			}
			d := pickNot(p)
			got := cs(cr.CrossingSign(p, d))
			want := ref.CrossingSign(va, vb, gen.V(p), gen.V(d))
			word = append(word, "CrossingSign")
			if got != want {
				fail("CrossingSign", s2.Crossing(got), s2.Crossing(want), p, d)
			}
			cur, haveCur = d, true
			mixed = true
		case 3:
			var p s2.Point
			if haveCur && r.Intn(3) == 0 {
				p = cur
			} else {
				p = pick()
			}
			d := pickNot(p)
			got := cr.EdgeOrVertexCrossing(p, d)
			want := ref.EdgeOrVertexCrossing(va, vb, gen.V(p), gen.V(d), refDir)
			word = append(word, "EdgeOrVertexCrossing")
			if got != want {
				fail("EdgeOrVertexCrossing", got, want, p, d)
			}
			cur, haveCur = d, true
			mixed = true
		default:
			d := pickNot(cur)
			got := cr.EdgeOrVertexChainCrossing(d)
			want := ref.EdgeOrVertexCrossing(va, vb, gen.V(cur), gen.V(d), refDir)
			word = append(word, "EdgeOrVertexChainCrossing")
			if got != want {
				fail("EdgeOrVertexChainCrossing", got, want, cur, d)
			}
			cur = d
		}
		c.Count("hist.ops", 1)
	}
	if mixed {
		c.Distinct(append(gen.Bits(a, b), uint64(c.I))...)
	}
	if c.I < 2 {
		c.Sample(map[string]any{"a": gen.Hex(a), "b": gen.Hex(b), "word": word})
	}
	_ = rand.Int
}
