// Package c18 monitors C18: area, curvature and centroid are consistent with
// containment and orientation.
package c18

import (
	"fmt"
	"math"
	"math/big"
	"math/rand"
	"sort"

	"github.com/golang/geo/r3"
	"github.com/golang/geo/s2"

	"verif/internal/gen"
	"verif/internal/mon"
	"verif/internal/ref"
)

const eps = 2.220446049250313e-16

var origin = gen.V(s2.OriginPoint())

func Run(m *mon.M) {
	m.Rule = "valid loops of 3..2000 (quick) / ..10^4 (thorough) vertices: star-shaped loops of every family of the shared generator (1e-7 rad .. 1.5 rad, snapped, tiny), near-great-circle loops with vertices within 1e-9..1e-2 rad of antipodal to each other, cycles of a (perturbed, compressed, subdivided) octahedron whose edges are 90..179.9999 degrees, degenerate and nearly degenerate slivers along one geodesic (incl. exactly collinear), loops whose lexicographically smallest vertex (or its neighbours) has a mirror twin (x,y,-z), each together with its inverse and its vertex rotations; nested and island polygons; triangles 1e-9 rad .. pi. A loop is non-trivial and distinct when new AND (it has an edge longer than 90 degrees, or its area is within the error bound of 0 or 4*pi, or it exceeds a hemisphere, or it has more than 64 vertices, or it is smaller than 1e-10 sr)"
	m.Assumptions = []string{"reference area = 2*pi minus the total turning angle computed with 320-bit arithmetic (Gauss-Bonnet), signs of the turns from the exact orientation predicate with symbolic perturbation; cross-checked on star-shaped loops against the 320-bit triangle-fan sum", "reference centroid = 1/2 * sum over edges of angle(a,b) * unit(a x b) in 320-bit arithmetic", "documented error: PointArea/GirardArea 5e-15 per triangle and up to 2n triangles => 1e-14*n for Loop.Area; turningAngleMaxError (11.25 eps per vertex) for TurningAngle; no error is documented for centroids: a centroid is in violation only beyond 1e-12*n + 1e-9*|centroid| + 64 eps * sum over edges of 1/sin(edge length) (the last term is the sensitivity of the true centroid to a rounding of the vertices of nearly 180-degree edges)"}
	m.Require("loops.checked", 5000)
	m.Require("loops.degenerate_area", 300)
	m.Require("loops.long_edge", 500)
	m.Require("loops.over_hemisphere", 2000)
	m.Require("rotations.checked", 20000)
	m.Require("loops.mirror_twin", 200)
	m.Require("polygons.checked", 1000)
	m.Require("triangles.checked", 20000)
	m.Stream("loop", m.N(12000, 600000), loopCase)
	m.Stream("polygon", m.N(3000, 150000), polygonCase)
	m.Stream("triangle", m.N(40000, 2000000), triangleCase)
}

func orient(a, b, c ref.V) int { return ref.Orient(a, b, c) }

func fl3(h ref.H) r3.Vector { return r3.Vector{X: ref.Fl(h[0]), Y: ref.Fl(h[1]), Z: ref.Fl(h[2])} }

// refSimple: no duplicate vertices, no antipodal neighbours, no two non-adjacent edges cross.
func refSimple(vs []s2.Point) bool {
	n := len(vs)
	v := gen.Vs(vs)
	for i := 0; i < n; i++ {
		if ref.Antipodal(v[i], v[(i+1)%n]) {
			return false
		}
		for j := i + 1; j < n; j++ {
			if vs[i] == vs[j] {
				return false
			}
		}
	}
	for i := 0; i < n; i++ {
		for j := i + 2; j < n; j++ {
			if i == 0 && j == n-1 {
				continue
			}
			if ref.CrossingSign(v[i], v[(i+1)%n], v[j], v[(j+1)%n]) == ref.Cross {
				return false
			}
		}
	}
	return true
}

type loopCaseT struct {
	vs     []s2.Point
	kind   string
	star   bool
	center s2.Point
}

func genNearGC(r *rand.Rand) loopCaseT {
	c := gen.RandCenter(r)
	x, y, z := gen.Frame(c)
	delta := gen.LogUniform(r, 1e-9, 1e-2)
	pairs := 1 + r.Intn(4)
	var az []float64
	for k := 0; k < pairs; k++ {
		a := r.Float64() * math.Pi
		az = append(az, a, a+math.Pi)
	}
	for k := r.Intn(12); k > 0; k-- {
		az = append(az, r.Float64()*2*math.Pi)
	}
	sort.Float64s(az)
	// no azimuth gap may reach pi (the edge would pass through the centre): fill gaps
	for {
		filled := false
		for i := 0; i < len(az); i++ {
			nx := az[(i+1)%len(az)]
			if i == len(az)-1 {
				nx += 2 * math.Pi
			}
			if nx-az[i] > math.Pi-0.1 {
				az = append(az, az[i]+(nx-az[i])*(0.3+0.4*r.Float64()))
				filled = true
			}
		}
		if !filled {
			break
		}
		for i := range az {
			az[i] = math.Mod(az[i], 2*math.Pi)
		}
		sort.Float64s(az)
	}
	var vs []s2.Point
	last := -1.0
	for _, a := range az {
		if a-last < 1e-3 {
			continue
		}
		last = a
		vs = append(vs, gen.AtPolar(x, y, z, math.Pi/2-delta*(1+r.Float64()), a))
	}
	// rotate the start so that vertex 0 is arbitrary
	k := r.Intn(len(vs))
	vs = append(vs[k:], vs[:k]...)
	return loopCaseT{vs: vs, kind: "near-great-circle", star: true, center: c}
}

func genOcta(r *rand.Rand) loopCaseT {
	x, y, z := r3.Vector{X: 1}, r3.Vector{Y: 1}, r3.Vector{Z: 1}
	if r.Intn(3) != 0 {
		x, y, z = gen.Frame(gen.Uniform(r))
	}
	ax := []r3.Vector{x, x.Mul(-1), y, y.Mul(-1), z, z.Mul(-1)}
	perm := r.Perm(6)
	k := 3 + r.Intn(4)
	cyc := perm[:k]
	for i := 0; i < k; i++ {
		if cyc[i]/2 == cyc[(i+1)%k]/2 { // antipodal neighbours: not an octahedron edge
			return loopCaseT{}
		}
	}
	delta := []float64{0, 0, 1e-15, 1e-12, 1e-9, 1e-6, 1e-3}[r.Intn(7)]
	var vs []s2.Point
	compress := r.Intn(3) == 0
	for i := 0; i < k; i++ {
		p := s2.Point{Vector: ax[cyc[i]].Normalize()}
		prev, next := cyc[(i+k-1)%k], cyc[(i+1)%k]
		if compress && prev/2 == next/2 && r.Intn(2) == 0 && len(vs) > 0 {
			// drop this vertex B between A and -A; pull the next vertex towards B so that the edge A -> -A' passes through B
			d := gen.LogUniform(r, 1e-7, 1e-2)
			nx := s2.Point{Vector: ax[next].Add(ax[cyc[i]].Mul(d)).Normalize()}
			vs = append(vs, nx)
			i++
			continue
		}
		if delta > 0 {
			p = gen.Near(r, p, delta)
		}
		vs = append(vs, p)
		if r.Intn(4) == 0 { // subdivide the edge to the next vertex
			q := s2.Point{Vector: ax[cyc[i]].Add(ax[next]).Normalize()}
			if delta > 0 {
				q = gen.Near(r, q, delta)
			}
			vs = append(vs, q)
		}
	}
	if len(vs) < 3 {
		return loopCaseT{}
	}
	return loopCaseT{vs: vs, kind: "octahedral"}
}

func genSliver(r *rand.Rand) loopCaseT {
	var a, b s2.Point
	switch r.Intn(4) {
	case 0: // exactly on the equator
		a = s2.Point{Vector: r3.Vector{X: 1}}
		t := r.Float64() * 3
		b = s2.Point{Vector: r3.Vector{X: math.Cos(t), Y: math.Sin(t)}.Normalize()}
	default:
		a = gen.Uniform(r)
		b = gen.Near(r, a, gen.LogUniform(r, 1e-6, 3))
	}
	if a == b || ref.Antipodal(gen.V(a), gen.V(b)) {
		return loopCaseT{}
	}
	k := 3 + r.Intn(6)
	ts := make([]float64, k)
	for i := range ts {
		ts[i] = float64(r.Intn(17)) / 16
		if r.Intn(2) == 0 {
			ts[i] = r.Float64()
		}
	}
	sort.Float64s(ts)
	var out, back []s2.Point
	for i, t := range ts {
		p := s2.Interpolate(t, a, b)
		if a.Z == 0 && b.Z == 0 {
			p = s2.Point{Vector: r3.Vector{X: p.X, Y: p.Y}.Normalize()}
		}
		if i == 0 || i == k-1 || r.Intn(3) != 0 {
			out = append(out, p)
		} else {
			back = append(back, p)
		}
	}
	vs := out
	for i := len(back) - 1; i >= 0; i-- {
		vs = append(vs, back[i])
	}
	if r.Intn(2) == 0 {
		vs = gen.Reversed(vs)
	}
	return loopCaseT{vs: vs, kind: "sliver"}
}

// genTwin: a star-shaped loop around a point of the equator in which the lexicographically smallest vertex
// (or its two neighbours) has a mirror twin (x, y, -z): the canonical start vertex / direction then has to
// be decided by the last coordinate, while the rest of the loop is not symmetric.
func genTwin(r *rand.Rand) loopCaseT {
	lng := r.Float64() * 2 * math.Pi
	ctr := s2.Point{Vector: r3.Vector{X: math.Cos(lng), Y: math.Sin(lng)}}
	rmax := gen.LogUniform(r, 1e-3, 1.2)
	sp := gen.StarLoop(r, ctr, 4+r.Intn(14), rmax*(0.3+0.6*r.Float64()), rmax)
	vs := append([]s2.Point(nil), sp.Vs...)
	n := len(vs)
	mi := 0
	for i := range vs {
		if vs[i].Cmp(vs[mi].Vector) < 0 {
			mi = i
		}
	}
	mirror := func(p s2.Point) s2.Point { return s2.Point{Vector: r3.Vector{X: p.X, Y: p.Y, Z: -p.Z}} }
	x, y, _ := gen.Frame(ctr)
	byAz := func(ps []s2.Point) {
		sort.Slice(ps, func(i, j int) bool {
			return math.Atan2(ps[i].Dot(y), ps[i].Dot(x)) < math.Atan2(ps[j].Dot(y), ps[j].Dot(x))
		})
	}
	kind := "twin-of-smallest"
	if r.Intn(2) == 0 {
		w := mirror(vs[mi])
		if w == vs[mi] {
			return loopCaseT{}
		}
		vs = append(vs, w)
		byAz(vs)
	} else {
		kind = "twin-neighbours"
		vs[(mi+1)%n] = mirror(vs[(mi+n-1)%n])
		if vs[(mi+1)%n] == vs[(mi+n-1)%n] {
			return loopCaseT{}
		}
	}
	for i := range vs {
		for j := i + 1; j < len(vs); j++ {
			if vs[i] == vs[j] {
				return loopCaseT{}
			}
		}
	}
	if ok, _, _ := gen.StarOK(ctr, vs); !ok {
		return loopCaseT{}
	}
	// the smallest vertex must still be tied in (x, y) with its twin, or sit between the twin neighbours
	k := r.Intn(len(vs))
	vs = append(vs[k:], vs[:k]...)
	return loopCaseT{vs: vs, kind: "star:" + kind, star: true, center: ctr}
}

func genLoop(c *mon.Case, maxN int) (loopCaseT, bool) {
	r := c.R
	var lc loopCaseT
	switch r.Intn(11) {
	case 10:
		lc = genTwin(r)
		if len(lc.vs) >= 3 {
			c.Count("loops.mirror_twin", 1)
		}
	case 0, 1:
		lc = genNearGC(r)
	case 2, 3:
		lc = genOcta(r)
	case 4, 5:
		lc = genSliver(r)
	default:
		sp := gen.RandLoopSpec(r, maxN)
		lc = loopCaseT{vs: sp.Vs, kind: "star:" + sp.Kind, star: true, center: sp.Center}
	}
	if len(lc.vs) < 3 {
		return lc, false
	}
	if len(lc.vs) <= 24 || !lc.star {
		if !refSimple(lc.vs) {
			c.Count("generator.not_simple."+kindClass(lc.kind), 1)
			return lc, false
		}
	}
	if r.Intn(3) == 0 {
		lc.vs = gen.Reversed(lc.vs)
		lc.kind += "/inverted"
	}
	return lc, true
}

func kindClass(k string) string {
	if len(k) > 5 && k[:5] == "star:" {
		return "star"
	}
	return k
}

type refVals struct {
	curv, area *big.Float
	areaF      float64
	cen        r3.Vector
	ok         bool
}

var fourPi = new(big.Float).SetPrec(ref.Prec).Mul(ref.F(4), ref.Pi())
var twoPi = new(big.Float).SetPrec(ref.Prec).Mul(ref.F(2), ref.Pi())

func reference(vs []s2.Point) refVals {
	v := gen.Vs(vs)
	curv := ref.LoopCurvatureH(v, orient)
	area := new(big.Float).SetPrec(ref.Prec).Sub(twoPi, curv)
	rv := refVals{curv: curv, area: area, areaF: ref.Fl(area), cen: fl3(ref.LoopCentroidH(v))}
	rv.ok = rv.areaF > -1e-12 && rv.areaF < 4*math.Pi+1e-12
	return rv
}

func maxEdge(vs []s2.Point) float64 {
	mx := 0.0
	for i := range vs {
		mx = math.Max(mx, vs[i].Distance(vs[(i+1)%len(vs)]).Radians())
	}
	return mx
}

func loopCase(c *mon.Case) {
	r := c.R
	maxN := 200
	if c.M.Tier == "thorough" && c.I%50 == 0 {
		maxN = 10000
	} else if c.I%40 == 0 {
		maxN = 2000
	}
	lc, ok := genLoop(c, maxN)
	if !ok {
		return
	}
	vs := lc.vs
	n := len(vs)
	l := s2.LoopFromPoints(append([]s2.Point(nil), vs...))
	rv := reference(vs)
	if !rv.ok {
		c.Count("generator.reference_area_out_of_range", 1)
		return
	}
	c.Count("loops.checked", 1)
	c.Count("loops.kind."+kindClass(lc.kind), 1)
	nf := float64(n)
	tolA := 1e-14 * nf
	tolT := l.VerifTurningAngleMaxError()
	// conditioning: rounding an endpoint of an edge that is delta short of 180 degrees turns its plane by eps/delta
	cond := 0.0
	for i := range vs {
		cond += 1 / math.Max(math.Sin(vs[i].Distance(vs[(i+1)%n]).Radians()), 1e-300)
	}
	tolC := func(cn float64) float64 { return 1e-12*nf + 1e-9*cn + 64*eps*cond }
	area, turn, cen, norm := l.Area(), l.TurningAngle(), l.Centroid(), l.IsNormalized()
	me := maxEdge(vs)
	degenerate := rv.areaF < tolA || rv.areaF > 4*math.Pi-tolA
	if me > math.Pi/2 {
		c.Count("loops.long_edge", 1)
	}
	if degenerate {
		c.Count("loops.degenerate_area", 1)
	}
	if rv.areaF > 2*math.Pi {
		c.Count("loops.over_hemisphere", 1)
	}
	if me > math.Pi/2 || degenerate || rv.areaF > 2*math.Pi || n > 64 || rv.areaF < 1e-10 {
		c.Distinct(gen.Bits(vs[0], vs[1], vs[n-1])...)
	}
	det := func(extra map[string]any) any {
		d := map[string]any{"kind": lc.kind, "n": n, "ref_area": rv.areaF, "area": area, "turning_angle": turn, "max_edge_rad": me}
		if n <= 16 {
			d["vertices"] = gen.HexAll(vs...)
		} else {
			d["head"] = gen.HexAll(vs[:4]...)
		}
		for k, v := range extra {
			d[k] = v
		}
		return d
	}
	if c.I < 3 {
		c.Sample(det(nil))
	}
	// which side a degenerate loop is on is decided by the points it contains
	side := func() (big bool, known bool) {
		model := ref.NewLoopModel(gen.Vs(vs), origin, gen.RefDir)
		in := 0
		const K = 32
		for k := 0; k < K; k++ {
			if model.Contains(gen.V(gen.Uniform(r))) {
				in++
			}
		}
		return in > K/2, in == 0 || in == K || (in < K/4 || in > 3*K/4)
	}
	checkArea := func(what string, a float64, tol float64) {
		if math.IsNaN(a) || a < 0 || a > 4*math.Pi+1e-15 {
			c.Violation("Area/out-of-range/"+what+"/wrong-answer", fmt.Sprintf("Area (%s) = %v is outside [0, 4*pi]", what, a), det(nil))
			return
		}
		err := math.Abs(a - rv.areaF)
		if degenerate {
			// the area is within the error bound of 0 or 4*pi: the answer must be on the side of the points the loop contains
			big, known := side()
			want := 0.0
			if big {
				want = 4 * math.Pi
			}
			if known && math.Abs(a-want) > 2*tol {
				c.Violation("Area/degenerate-side/"+what+"/"+mon.Severity(math.Abs(a-want)), fmt.Sprintf("Area (%s) = %.17g of a loop whose true area is within the error bound of 0 or 4*pi, but the loop contains %s of the sampled points", what, a, map[bool]string{true: "most", false: "almost none"}[big]), det(map[string]any{"contains_most": big}))
			}
			return
		}
		c.Max("area.err_over_n_eps", err/(nf*eps))
		if rv.areaF > 0 {
			c.Max("area.rel_err", err/rv.areaF)
		}
		if err > tol {
			c.Violation("Area/vs-reference/"+what+"/"+mon.Severity(err), fmt.Sprintf("Area (%s) = %.17g differs from the 320-bit Gauss-Bonnet reference %.17g by %.3g (documented error %.3g for %d vertices)", what, a, rv.areaF, err, tol, n), det(nil))
		}
	}
	checkArea("as-given", area, tolA)
	// containment agreement for clearly small / clearly large loops
	if area < 0.3 || area > 4*math.Pi-0.3 {
		big, known := side()
		if known && big != (area > 2*math.Pi) {
			c.Violation("Area/disagrees-with-containment/wrong-answer", fmt.Sprintf("Area = %.6g but the loop contains %s of 32 uniformly sampled points", area, map[bool]string{true: "most", false: "almost none"}[big]), det(nil))
		}
	}
	// curvature against the reference
	curvF := ref.Fl(rv.curv)
	terr := math.Abs(turn - curvF)
	c.Max("turning.err_over_bound", terr/tolT)
	if terr > tolT+8*eps { // +8 eps: the clamp to +-(2*pi - 4 eps)
		c.Violation("TurningAngle/vs-reference/"+mon.Severity(terr), fmt.Sprintf("TurningAngle = %.17g differs from the 320-bit reference %.17g by %.3g (turningAngleMaxError %.3g)", turn, curvF, terr, tolT), det(nil))
	}
	// Gauss-Bonnet between the library's own two answers
	if !degenerate {
		gb := math.Abs(area - (2*math.Pi - turn))
		if gb > tolA+tolT+8*eps {
			c.Violation("Area/vs-TurningAngle/"+mon.Severity(gb), fmt.Sprintf("Area %.17g and 2*pi - TurningAngle %.17g differ by %.3g", area, 2*math.Pi-turn, gb), det(nil))
		}
	}
	if rv.areaF < 2*math.Pi-1e-9 && !norm {
		c.Violation("IsNormalized/false-for-small-loop/wrong-answer", fmt.Sprintf("IsNormalized is false for a loop of area %.12g < 2*pi", rv.areaF), det(nil))
	}
	if rv.areaF > 2*math.Pi+1e-9 && norm {
		c.Violation("IsNormalized/true-for-large-loop/wrong-answer", fmt.Sprintf("IsNormalized is true for a loop of area %.12g > 2*pi", rv.areaF), det(nil))
	}
	// centroid against the reference
	checkCen := func(what string, got r3.Vector, want r3.Vector) {
		e := got.Sub(want).Norm()
		t := tolC(want.Norm())
		c.Max("centroid.err_over_tolerance", e/t)
		if e > t || math.IsNaN(e) {
			c.Violation("Centroid/"+what+"/"+mon.Severity(e), fmt.Sprintf("Centroid (%s) = %v differs from the reference %v by %.3g", what, got, want, e), det(map[string]any{"centroid": fmt.Sprint(got), "ref_centroid": fmt.Sprint(want)}))
		}
	}
	checkCen("vs-reference", cen.Vector, rv.cen)
	// inverse
	inv := s2.LoopFromPoints(gen.Reversed(vs))
	ia, it, ic := inv.Area(), inv.TurningAngle(), inv.Centroid()
	if it != -turn {
		c.Violation("TurningAngle/not-negated-by-inversion/"+mon.Severity(math.Abs(it+turn)), fmt.Sprintf("TurningAngle of the inverted loop is %.17g, of the loop %.17g: not exactly negated", it, turn), det(nil))
	}
	if s := math.Abs(ia + area - 4*math.Pi); s > 2*tolA {
		c.Violation("Area/loop-plus-inverse/"+mon.Severity(s), fmt.Sprintf("Area(loop) + Area(inverse) = %.17g + %.17g differs from 4*pi by %.3g", area, ia, s), det(map[string]any{"inverse_area": ia}))
	}
	checkCen("inverse-not-negated", ic.Vector.Mul(-1), rv.cen)
	// the method Invert on the same object
	l2 := s2.LoopFromPoints(append([]s2.Point(nil), vs...))
	l2.Invert()
	if a2, t2 := l2.Area(), l2.TurningAngle(); a2 != ia || t2 != it {
		c.Violation("Invert/differs-from-reversed-construction/wrong-answer", fmt.Sprintf("after Invert: Area %.17g TurningAngle %.17g; loop built from the reversed vertices: %.17g %.17g", a2, t2, ia, it), det(nil))
	}
	// rotations of the vertex order
	rots := []int{1, n - 1, r.Intn(n), r.Intn(n)}
	if n <= 12 {
		rots = rots[:0]
		for k := 1; k < n; k++ {
			rots = append(rots, k)
		}
	}
	for _, k := range rots {
		if k == 0 {
			continue
		}
		rot := append(append([]s2.Point(nil), vs[k:]...), vs[:k]...)
		lr := s2.LoopFromPoints(rot)
		c.Count("rotations.checked", 1)
		if tr := lr.TurningAngle(); tr != turn {
			c.Violation("TurningAngle/changed-by-rotation/"+mon.Severity(math.Abs(tr-turn)), fmt.Sprintf("TurningAngle is %.17g with the vertex order rotated by %d, %.17g as given", tr, k, turn), det(map[string]any{"rotation": k}))
		}
		checkArea(fmt.Sprintf("rotated"), lr.Area(), tolA)
		if !degenerate {
			c.Max("area.rotation_diff_over_n_eps", math.Abs(lr.Area()-area)/(nf*eps))
		}
		checkCen("rotated-vs-reference", lr.Centroid().Vector, rv.cen)
		if ri, ti := lr.Area(), lr.TurningAngle(); lr.IsNormalized() != norm {
			c.Violation("IsNormalized/changed-by-rotation/wrong-answer", fmt.Sprintf("IsNormalized is %v with the vertex order rotated by %d (area %.6g, turning angle %.6g), %v as given", !norm, k, ri, ti, norm), det(map[string]any{"rotation": k}))
		}
	}
	// triangulation: the fan from the centre of a star-shaped loop
	if lc.star {
		ctr := lc.center
		sum, sumC := 0.0, r3.Vector{}
		hsum := new(big.Float).SetPrec(ref.Prec)
		ws := vs
		inverted := len(lc.kind) > 9 && lc.kind[len(lc.kind)-9:] == "/inverted"
		if inverted {
			ws = gen.Reversed(vs)
		}
		for i := range ws {
			a, b := ws[i], ws[(i+1)%n]
			sum += s2.PointArea(ctr, a, b)
			sumC = sumC.Add(s2.TrueCentroid(ctr, a, b).Vector)
			hsum.Add(hsum, ref.TriangleAreaH(ref.HV(gen.V(ctr)), ref.HV(gen.V(a)), ref.HV(gen.V(b))))
		}
		wantA := rv.areaF
		if inverted {
			wantA = ref.Fl(new(big.Float).SetPrec(ref.Prec).Sub(fourPi, rv.area))
		}
		if d := math.Abs(ref.Fl(hsum) - wantA); d > 1e-18+1e-15*wantA {
			c.M.Broken(fmt.Sprintf("oracle: 320-bit fan sum %.17g and Gauss-Bonnet reference %.17g disagree (%s, n=%d, case %d)", ref.Fl(hsum), wantA, lc.kind, n, c.I))
			return
		}
		c.Count("triangulations.checked", 1)
		libA := area
		if inverted {
			libA = ia
		}
		if d := math.Abs(sum - libA); d > tolA+5e-15*nf && !degenerate {
			c.Violation("Area/vs-triangulation/"+mon.Severity(d), fmt.Sprintf("Area %.17g differs from the sum of PointArea over the fan triangulation %.17g by %.3g", libA, sum, d), det(map[string]any{"fan_sum": sum}))
		}
		wantC := rv.cen
		if inverted {
			wantC = wantC.Mul(-1)
		}
		checkCen("fan-of-TrueCentroid-vs-reference", sumC, wantC)
	}
}

func polygonCase(c *mon.Case) {
	r := c.R
	// nested rings around one centre, optionally plus islands elsewhere
	type ring struct {
		vs    []s2.Point
		depth int
	}
	var rings []ring
	groups := 1 + r.Intn(3)
	touch := c.I%4 == 1 // one shell of at least 10 vertices that gets a hole touching it at a vertex
	if touch {
		groups = 1
	}
	centers := []s2.Point{}
	for g := 0; g < groups; g++ {
		ctr := gen.RandCenter(r)
		far := true
		for _, o := range centers {
			if o.Distance(ctr).Radians() < 0.9 {
				far = false
			}
		}
		if !far {
			continue
		}
		centers = append(centers, ctr)
		rad := gen.LogUniform(r, 1e-6, 0.4)
		for d := 0; d < 1+r.Intn(4); d++ {
			nv := 3 + r.Intn(30)
			if touch {
				if d > 0 {
					break
				}
				nv = 10 + r.Intn(25)
			}
			sp := gen.StarLoop(r, ctr, nv, rad*0.75, rad)
			rings = append(rings, ring{sp.Vs, d})
			rad = sp.RMin * 0.7
			if rad < 1e-9 {
				break
			}
		}
	}
	oriented := r.Intn(2) == 0
	// (a) a triangular hole that touches its shell at one shared vertex (the shell's vertex 0 in half of the
	// cases), for single-ring groups; validated exactly: inside the shell, no edge crossing
	if len(rings) == 1 && len(rings[0].vs) >= 4 && (touch || r.Intn(2) == 0) {
		sh := rings[0].vs
		k := 0
		if r.Intn(2) == 0 {
			k = r.Intn(len(sh))
		}
		ctr := centers[0]
		d := sh[k].Distance(ctr).Radians()
		p1, p2 := gen.Near(r, ctr, 0.04*d), gen.Near(r, ctr, 0.04*d)
		tri := []s2.Point{sh[k], p1, p2}
		if orient(gen.V(tri[0]), gen.V(tri[1]), gen.V(tri[2])) < 0 {
			tri[1], tri[2] = tri[2], tri[1]
		}
		ok := orient(gen.V(tri[0]), gen.V(tri[1]), gen.V(tri[2])) > 0
		model := ref.NewLoopModel(gen.Vs(sh), gen.V(s2.OriginPoint()), gen.RefDir)
		ok = ok && model.Contains(gen.V(p1)) && model.Contains(gen.V(p2))
		for i := 0; ok && i < len(sh); i++ {
			a, b := sh[i], sh[(i+1)%len(sh)]
			for j := 0; j < 3; j++ {
				x, y := tri[j], tri[(j+1)%3]
				if a == x || a == y || b == x || b == y {
					continue
				}
				if ref.CrossingSign(gen.V(a), gen.V(b), gen.V(x), gen.V(y)) != ref.DoNotCross {
					ok = false
				}
			}
		}
		if ok {
			rot := r.Intn(3) // the shared vertex is vertex (3-rot)%3 of the hole
			tri = append(tri[rot:], tri[:rot]...)
			rings = append(rings, ring{tri, 1})
			c.Count("polygons.hole_touching_shell_at_a_vertex", 1)
		}
	}
	// (b) a thin band between two nearly great circles (turning angle of both loops about zero)
	if c.I%4 == 0 {
		ax := gen.Uniform(r)
		if r.Intn(2) == 0 {
			ax = gen.Special(r)
		}
		x, y, z := gen.Frame(ax)
		n := 4 + r.Intn(12)
		lat1 := []float64{0, 0, gen.LogUniform(r, 1e-16, 1e-14), gen.LogUniform(r, 1e-15, 1e-3), -gen.LogUniform(r, 1e-15, 1e-3)}[r.Intn(5)]
		lat2 := lat1 - gen.LogUniform(r, 1e-15, 1e-3)
		if r.Intn(2) == 0 {
			lat2 = lat1 - gen.LogUniform(r, 1e-15, 1e-13) // both turning angles within the error of zero
		}
		mk := func(lat float64) []s2.Point {
			vs := make([]s2.Point, n)
			for i := range vs {
				ph := 2 * math.Pi * float64(i) / float64(n)
				vs[i] = s2.Point{Vector: x.Mul(math.Cos(lat) * math.Cos(ph)).Add(y.Mul(math.Cos(lat) * math.Sin(ph))).Add(z.Mul(math.Sin(lat))).Normalize()}
			}
			return vs
		}
		shell, hole := mk(lat2), mk(lat1)
		// exact validation: the hole lies strictly inside the shell and no edges meet
		ok := refSimple(shell) && refSimple(hole)
		if ok {
			model := ref.NewLoopModel(gen.Vs(shell), gen.V(s2.OriginPoint()), gen.RefDir)
			for i := 0; ok && i < n; i++ {
				ok = model.Contains(gen.V(hole[i]))
				for j := 0; ok && j < n; j++ {
					if ref.CrossingSign(gen.V(shell[i]), gen.V(shell[(i+1)%n]), gen.V(hole[j]), gen.V(hole[(j+1)%n])) != ref.DoNotCross {
						ok = false
					}
				}
			}
		}
		if ok {
			rings = []ring{{shell, 0}, {hole, 1}}
			oriented = c.I%8 == 0
			c.Count("polygons.band_between_near_great_circles", 1)
		}
	}
	var loops []*s2.Loop
	wantA := new(big.Float).SetPrec(ref.Prec)
	wantC := ref.H{ref.F(0), ref.F(0), ref.F(0)}
	nTot := 0
	for _, rg := range rings {
		v := gen.Vs(rg.vs)
		a := new(big.Float).SetPrec(ref.Prec).Sub(twoPi, ref.LoopCurvatureH(v, orient))
		cc := ref.LoopCentroidH(v)
		if rg.depth%2 == 1 {
			a.Neg(a)
			cc = cc.Neg()
		}
		wantA.Add(wantA, a)
		wantC = wantC.Add(cc)
		nTot += len(rg.vs)
		vs := append([]s2.Point(nil), rg.vs...)
		if oriented && rg.depth%2 == 1 {
			vs = gen.Reversed(vs)
		}
		loops = append(loops, s2.LoopFromPoints(vs))
	}
	r.Shuffle(len(loops), func(i, j int) { loops[i], loops[j] = loops[j], loops[i] })
	var p *s2.Polygon
	if oriented {
		p = s2.PolygonFromOrientedLoops(loops)
	} else {
		p = s2.PolygonFromLoops(loops)
	}
	c.Count("polygons.checked", 1)
	if len(rings) > 1 {
		c.Distinct(gen.Bits(rings[0].vs[0], rings[len(rings)-1].vs[0])...)
	}
	det := func() any {
		return map[string]any{"loops": len(rings), "oriented_input": oriented, "vertices": nTot, "first_vertex": gen.Hex(rings[0].vs[0])}
	}
	if c.I < 2 {
		c.Sample(det())
	}
	a, wa := p.Area(), ref.Fl(wantA)
	tol := 1e-14 * float64(nTot)
	if e := math.Abs(a - wa); e > tol {
		c.Violation("Polygon.Area/vs-signed-sum/"+mon.Severity(e), fmt.Sprintf("Polygon.Area = %.17g, signed sum of the reference loop areas over shells and holes = %.17g (differs by %.3g)", a, wa, e), det())
	}
	cc, wc := p.Centroid().Vector, fl3(wantC)
	if e := cc.Sub(wc).Norm(); e > 1e-12*float64(nTot)+1e-9*wc.Norm() || math.IsNaN(e) {
		c.Violation("Polygon.Centroid/vs-signed-sum/"+mon.Severity(e), fmt.Sprintf("Polygon.Centroid = %v, signed sum of the reference loop centroids = %v (differs by %.3g)", cc, wc, e), det())
	}
	// complement: area(p) + area(~p) = 4*pi
	if len(rings) > 0 {
		q := p
		q.Invert()
		if e := math.Abs(q.Area() + a - 4*math.Pi); e > 2*tol {
			c.Violation("Polygon.Area/polygon-plus-complement/"+mon.Severity(e), fmt.Sprintf("Area(polygon) + Area(complement) = %.17g + %.17g differs from 4*pi by %.3g", a, q.Area(), e), det())
		}
	}
	// a loop object that was a hole of this polygon, reused as the only loop of a new polygon, is a shell again
	var fresh []*s2.Loop
	for _, rg := range rings {
		fresh = append(fresh, s2.LoopFromPoints(append([]s2.Point(nil), rg.vs...)))
	}
	p2 := s2.PolygonFromLoops(fresh)
	for k := 0; k < p2.NumLoops(); k++ {
		lp := p2.Loop(k)
		if !lp.IsHole() {
			continue
		}
		// its reference area: the ring with the same first vertex
		var want float64
		found := false
		for _, rg := range rings {
			if rg.vs[0] == lp.Vertex(0) && len(rg.vs) == lp.NumVertices() {
				want = ref.Fl(new(big.Float).SetPrec(ref.Prec).Sub(twoPi, ref.LoopCurvatureH(gen.Vs(rg.vs), orient)))
				found = true
			}
		}
		if !found {
			break
		}
		q := s2.PolygonFromLoops([]*s2.Loop{lp})
		c.Count("polygons.hole_loop_reused_as_shell", 1)
		if e := math.Abs(q.Area() - want); e > 1e-14*float64(lp.NumVertices()) {
			c.Violation("Polygon.Area/loop-object-reused-as-single-shell/"+mon.Severity(e), fmt.Sprintf("a polygon built from one loop object that was a hole of another polygon has Area %.17g, the loop's area is %.17g", q.Area(), want), det())
		}
		break
	}
}

func triangleCase(c *mon.Case) {
	r := c.R
	a := gen.Uniform(r)
	var b, cc s2.Point
	scale := gen.LogUniform(r, 1e-9, 3)
	switch r.Intn(5) {
	case 0: // skinny: c near the geodesic ab
		b = gen.Near(r, a, scale)
		cc = gen.OnGreatCircle(r, a, b, r.Float64(), r.Intn(4))
	case 1: // long edges
		b = gen.Near(r, a, math.Pi-gen.LogUniform(r, 1e-6, 1))
		cc = gen.Near(r, a, scale)
	default:
		b = gen.Near(r, a, scale)
		cc = gen.Near(r, a, scale*(0.05+r.Float64()))
	}
	va, vb, vc := gen.V(a), gen.V(b), gen.V(cc)
	if a == b || b == cc || a == cc || ref.Antipodal(va, vb) || ref.Antipodal(vb, vc) || ref.Antipodal(va, vc) {
		return
	}
	c.Count("triangles.checked", 1)
	c.Distinct(gen.Bits(a, b, cc)...)
	det := func() any { return map[string]any{"a": gen.Hex(a), "b": gen.Hex(b), "c": gen.Hex(cc)} }
	if c.I < 2 {
		c.Sample(det())
	}
	want := ref.Fl(ref.TriangleAreaH(ref.HV(va), ref.HV(vb), ref.HV(vc)))
	sgn := ref.Orient(va, vb, vc)
	pa, ga, sa := s2.PointArea(a, b, cc), s2.GirardArea(a, b, cc), s2.SignedArea(a, b, cc)
	// stated bound: maximum error about 5e-15 for both; nearly-180-degree edges make the true area ill-conditioned
	// (a rounding of the input changes it), which the documentation notes, so those only feed the extremes
	me := math.Max(a.Distance(b).Radians(), math.Max(b.Distance(cc).Radians(), a.Distance(cc).Radians()))
	ep, eg := math.Abs(pa-math.Abs(want)), math.Abs(ga-math.Abs(want))
	if me < math.Pi-1e-3 {
		c.Max("PointArea.abs_err", ep)
		c.Max("GirardArea.abs_err", eg)
		if ep > 2e-14 {
			c.Violation("PointArea/vs-reference/"+mon.Severity(ep), fmt.Sprintf("PointArea = %.17g, 320-bit reference %.17g: error %.3g exceeds 4x the stated maximum 5e-15", pa, math.Abs(want), ep), det())
		}
		if eg > 2e-14 {
			c.Violation("GirardArea/vs-reference/"+mon.Severity(eg), fmt.Sprintf("GirardArea = %.17g, 320-bit reference %.17g: error %.3g exceeds 4x the stated maximum 5e-15", ga, math.Abs(want), eg), det())
		}
	}
	if pa < 0 || ga < 0 {
		c.Violation("PointArea/negative/wrong-answer", "PointArea or GirardArea returned a negative area", det())
	}
	if (sa > 0 && sgn < 0) || (sa < 0 && sgn > 0) || math.Abs(sa) != pa {
		c.Violation("SignedArea/sign/wrong-answer", fmt.Sprintf("SignedArea = %.17g but the exact orientation of the triangle is %d and PointArea is %.17g", sa, sgn, pa), det())
	}
	if t1, t2 := s2.TurnAngle(a, b, cc), s2.TurnAngle(cc, b, a); t1 != -t2 {
		c.Violation("TurnAngle/not-antisymmetric/"+mon.Severity(math.Abs(float64(t1+t2))), fmt.Sprintf("TurnAngle(a,b,c) = %.17g but TurnAngle(c,b,a) = %.17g", float64(t1), float64(t2)), det())
	}
	if t1 := float64(s2.TurnAngle(a, b, cc)); (t1 > 0 && sgn < 0) || (t1 < 0 && sgn > 0) {
		c.Violation("TurnAngle/sign/wrong-answer", fmt.Sprintf("TurnAngle = %.17g but the exact orientation is %d", t1, sgn), det())
	}
	// centroid of the triangle
	wc := fl3(ref.LoopCentroidH([]ref.V{va, vb, vc}))
	tc := s2.TrueCentroid(a, b, cc).Vector
	e := tc.Sub(wc).Norm()
	if me < math.Pi-1e-3 {
		c.Max("TrueCentroid.abs_err", e)
		if e > 1e-12+1e-9*wc.Norm() || math.IsNaN(e) {
			c.Violation("TrueCentroid/vs-reference/"+mon.Severity(e), fmt.Sprintf("TrueCentroid = %v, reference %v (differs by %.3g)", tc, wc, e), det())
		}
	}
}
