// Package c07 monitors C07: loop and polygon containment/intersection obey
// point-set semantics and the set-algebra laws.
package c07

import (
	"fmt"
	"math"
	"math/rand"

	"github.com/golang/geo/s2"

	"verif/internal/gen"
	"verif/internal/mon"
	"verif/internal/ref"
)

func refDir(v ref.V) ref.V { return gen.V(s2.Ortho(gen.P(v))) }

var origin = gen.V(s2.OriginPoint())

func Run(m *mon.M) {
	m.Rule = "pairs of loops/polygons whose true relation is known by construction (nested, disjoint, crossing, adjacent cells sharing an edge, parent/child cells) plus arbitrary nearby pairs; 3..700 vertices quick (..10^4 thorough) on both sides of one index cell and of the 20-edge crossing-query switch; every pair is also evaluated after inverting A, B and both. A pair is non-trivial and distinct when its vertex bits are new AND (the relation is nested or crossing, or the loops share a vertex, or one of them covers more than a hemisphere)"
	m.Assumptions = []string{"ground truth of constructed pairs follows from conservative inner/outer radii of star-shaped loops", "internal/ref crossing-parity containment for the one-sided point-set checks"}
	m.Require("pairs.nested", 300)
	m.Require("pairs.crossing", 300)
	m.Require("pairs.disjoint", 300)
	m.Require("pairs.shared_edge", 200)
	m.Require("pairs.big_index", 100)
	maxN := m.N(700, 10000)
	m.Stream("pairs", m.N(12000, 400000), func(c *mon.Case) {
		n := maxN // thorough: up to 10^4 vertices in one case out of twelve, 1200 otherwise
		if n > 1200 && c.I%12 != 0 {
			n = 1200
		}
		pairCase(c, n)
	})
	m.Stream("cells", m.N(3000, 100000), cellPairs)
	m.Stream("polygons", m.N(2000, 100000), polygonPairs)
	m.Require("touching.checked", 5000)
	m.Stream("touching", m.N(20000, 1000000), touchingCase)
}

// touchingCase: a child triangle (p, s, c) inside a star-shaped parent A that shares the vertex p with A
// and whose edge p->s runs along A's edge p->q, s being a point of pq nudged into A's interior by a few
// ulps; c is A's centre. B is a subset of A by construction (checked with the exact orientation), the
// bounding rectangles of the two loops agree to within rounding.
func touchingCase(c *mon.Case) {
	r := c.R
	ctr := gen.RandCenter(r)
	n := 3 + r.Intn(6)
	rmax := gen.LogUniform(r, 1e-4, 1.3)
	A := gen.StarLoop(r, ctr, n, rmax*(0.5+0.45*r.Float64()), rmax)
	i := r.Intn(n)
	p, q := A.Vs[i], A.Vs[(i+1)%n]
	base := s2.Interpolate(0.05+0.9*r.Float64(), p, q)
	var sPt s2.Point
	ok := false
	for _, f := range []float64{1e-16, 3e-16, 1e-15, 1e-14, 1e-12, 1e-9} {
		if r.Intn(2) == 0 && f < 1e-12 {
			continue
		}
		sPt = s2.Point{Vector: base.Add(ctr.Sub(base.Vector).Mul(f)).Normalize()}
		if sPt != p && sPt != q && ref.Orient(gen.V(p), gen.V(q), gen.V(sPt)) > 0 && ref.Orient(gen.V(p), gen.V(sPt), gen.V(ctr)) > 0 {
			ok = true
			break
		}
	}
	if !ok {
		return
	}
	B := []s2.Point{p, sPt, ctr}
	c.Count("touching.checked", 1)
	c.Distinct(gen.Bits(p, q, sPt)...)
	probes := append(append([]s2.Point{}, A.Vs...), B...)
	probes = append(probes, gen.BoundaryProbes(r, A.Vs, 6)...)
	checkPair(c, r, A.Vs, B, nested, "touching-child", probes)
	// nesting discovered by PolygonFromLoops, in both loop orders
	inB := s2.Point{Vector: p.Add(sPt.Vector).Add(ctr.Vector).Normalize()}
	inAonly := s2.Point{Vector: ctr.Add(A.Vs[(i+2)%n].Vector).Normalize()}
	mA, mB := ref.NewLoopModel(gen.Vs(A.Vs), origin, refDir), ref.NewLoopModel(gen.Vs(B), origin, refDir)
	for order := 0; order < 2; order++ {
		la, lb := s2.LoopFromPoints(append([]s2.Point(nil), A.Vs...)), s2.LoopFromPoints(append([]s2.Point(nil), B...))
		ls := []*s2.Loop{la, lb}
		if order == 1 {
			ls = []*s2.Loop{lb, la}
		}
		P := s2.PolygonFromLoops(ls)
		det := func() any {
			return map[string]any{"kind": "touching-child", "A": gen.HexAll(A.Vs...), "B": gen.HexAll(B...), "order": order}
		}
		if P.NumLoops() != 2 || la.IsHole() || !lb.IsHole() {
			c.Violation("Polygon/nesting/touching-child-not-a-hole/wrong-answer", fmt.Sprintf("PolygonFromLoops: the child loop inside its parent (shared vertex, edge along the parent's edge) has IsHole=%v, the parent IsHole=%v, %d loops", lb.IsHole(), la.IsHole(), P.NumLoops()), det())
			continue
		}
		if mB.Contains(gen.V(inB)) && P.ContainsPoint(inB) {
			c.Violation("Polygon/nesting/contains-point-of-hole/wrong-answer", "the polygon contains a point inside its hole", det())
		}
		if mA.Contains(gen.V(inAonly)) && !mB.Contains(gen.V(inAonly)) && !P.ContainsPoint(inAonly) {
			c.Violation("Polygon/nesting/misses-point-of-body/wrong-answer", "the polygon does not contain a point between shell and hole", det())
		}
	}
}

type rel int

const (
	unknown rel = iota
	nested      // B strictly inside A
	disjoint
	crossing
)

func (r rel) String() string {
	return [...]string{"unknown", "nested(B in A)", "disjoint", "crossing"}[r]
}

func size(r *rand.Rand, maxN int) int {
	switch r.Intn(6) {
	case 0:
		return 3 + r.Intn(6)
	case 1:
		return 8 + r.Intn(30) // around 10 edges/cell and 20-edge switch
	case 2:
		return 40 + r.Intn(100)
	case 3:
		return 100 + r.Intn(maxN)
	default:
		return 4 + r.Intn(40)
	}
}

func mk(r *rand.Rand, center s2.Point, n int, rmax float64) gen.LoopSpec {
	if r.Intn(3) == 0 {
		return gen.RegularSpec(center, n, rmax, r.Float64()*2*math.Pi)
	}
	return gen.StarLoop(r, center, n, rmax*(0.6+0.38*r.Float64()), rmax)
}

type subject struct {
	name   string
	loop   *s2.Loop
	poly   *s2.Polygon
	model  *ref.LoopModel
	vs     []s2.Point
	invert bool
}

func newSubject(name string, vs []s2.Point, invert bool) *subject {
	v := append([]s2.Point(nil), vs...)
	s := &subject{name: name, invert: invert}
	s.loop = s2.LoopFromPoints(append([]s2.Point(nil), v...))
	if invert {
		s.loop.Invert()
	}
	// the polygon is built from an independent loop object
	pl := s2.LoopFromPoints(append([]s2.Point(nil), v...))
	if invert {
		pl.Invert()
	}
	s.poly = s2.PolygonFromOrientedLoops([]*s2.Loop{pl})
	s.vs = s.loop.Vertices()
	s.model = ref.NewLoopModel(gen.Vs(s.vs), origin, refDir)
	return s
}

func head(vs []s2.Point) []string {
	k := len(vs)
	if k > 4 {
		k = 4
	}
	return gen.HexAll(vs[:k]...)
}

// checkPair evaluates all laws on (A,B) and on the inverted combinations.
func checkPair(c *mon.Case, r *rand.Rand, avs, bvs []s2.Point, truth rel, kind string, probes []s2.Point) {
	A, B := newSubject("A", avs, false), newSubject("B", bvs, false)
	Ai, Bi := newSubject("~A", avs, true), newSubject("~B", bvs, true)
	det := func(extra map[string]any) any {
		d := map[string]any{"kind": kind, "constructed_relation": truth.String(), "nA": len(avs), "nB": len(bvs), "A_head": head(avs), "B_head": head(bvs)}
		for k, v := range extra {
			d[k] = v
		}
		return d
	}
	if c.I < 3 {
		c.Sample(det(nil))
	}
	contains := func(x, y *subject) bool { return x.loop.Contains(y.loop) }
	intersects := func(x, y *subject) bool { return x.loop.Intersects(y.loop) }
	// (a) ground truth by construction
	type exp struct {
		name      string
		got, want bool
	}
	var exps []exp
	switch truth {
	case nested:
		exps = []exp{{"A.Contains(B)", contains(A, B), true}, {"B.Contains(A)", contains(B, A), false}, {"A.Intersects(B)", intersects(A, B), true},
			{"~A.Intersects(B)", intersects(Ai, B), false}, {"~B.Contains(~A)", contains(Bi, Ai), true}, {"~A.Contains(B)", contains(Ai, B), false}, {"A.Contains(~B)", contains(A, Bi), false}, {"~B.Intersects(A)", intersects(Bi, A), true}}
	case disjoint:
		exps = []exp{{"A.Contains(B)", contains(A, B), false}, {"B.Contains(A)", contains(B, A), false}, {"A.Intersects(B)", intersects(A, B), false},
			{"~A.Contains(B)", contains(Ai, B), true}, {"~B.Contains(A)", contains(Bi, A), true}, {"~A.Intersects(~B)", intersects(Ai, Bi), true}, {"~A.Contains(~B)", contains(Ai, Bi), false}}
	case crossing:
		exps = []exp{{"A.Contains(B)", contains(A, B), false}, {"B.Contains(A)", contains(B, A), false}, {"A.Intersects(B)", intersects(A, B), true},
			{"~A.Contains(B)", contains(Ai, B), false}, {"~A.Intersects(B)", intersects(Ai, B), true}, {"~A.Contains(~B)", contains(Ai, Bi), false}, {"~A.Intersects(~B)", intersects(Ai, Bi), true}}
	}
	for _, e := range exps {
		if e.got != e.want {
			c.Violation("Loop/ground-truth/"+truth.String()+"/"+e.name+"/wrong-answer", fmt.Sprintf("%s = %v for a pair that is %s by construction", e.name, e.got, truth), det(map[string]any{"call": e.name}))
		}
	}
	// (c) exact laws on every combination
	for _, pr := range [][2]*subject{{A, B}, {Ai, B}, {A, Bi}, {Ai, Bi}} {
		X, Y := pr[0], pr[1]
		Xc, Yc := map[*subject]*subject{A: Ai, Ai: A}[X], map[*subject]*subject{B: Bi, Bi: B}[Y]
		tag := X.name + "," + Y.name
		xy, yx := intersects(X, Y), intersects(Y, X)
		if xy != yx {
			c.Violation("Loop/law/Intersects-symmetric/wrong-answer", fmt.Sprintf("%s.Intersects(%s)=%v but the reverse is %v", X.name, Y.name, xy, yx), det(map[string]any{"pair": tag}))
		}
		if got := contains(Xc, Y); xy == got {
			c.Violation("Loop/law/Intersects-iff-complement-not-contains/wrong-answer", fmt.Sprintf("%s.Intersects(%s)=%v but complement(%s).Contains(%s)=%v", X.name, Y.name, xy, X.name, Y.name, got), det(map[string]any{"pair": tag}))
		}
		cxy := contains(X, Y)
		if got := contains(Yc, Xc); got != cxy {
			c.Violation("Loop/law/Contains-iff-complements-reversed/wrong-answer", fmt.Sprintf("%s.Contains(%s)=%v but complement(%s).Contains(complement(%s))=%v", X.name, Y.name, cxy, Y.name, X.name, got), det(map[string]any{"pair": tag}))
		}
		// single-loop polygon answers equal loop answers
		if got := X.poly.Contains(Y.poly); got != cxy {
			c.Violation("Polygon/single-loop-equals-loop/Contains/wrong-answer", fmt.Sprintf("Polygon(%s).Contains(Polygon(%s))=%v, loops say %v", X.name, Y.name, got, cxy), det(map[string]any{"pair": tag}))
		}
		if got := X.poly.Intersects(Y.poly); got != xy {
			c.Violation("Polygon/single-loop-equals-loop/Intersects/wrong-answer", fmt.Sprintf("Polygon(%s).Intersects(Polygon(%s))=%v, loops say %v", X.name, Y.name, got, xy), det(map[string]any{"pair": tag}))
		}
		// (b) point-set semantics, one-sided
		for _, p := range probes {
			inX, inY := X.model.Contains(gen.V(p)), Y.model.Contains(gen.V(p))
			if cxy && inY && !inX {
				c.Violation("Loop/point-set/Contains-but-point-of-B-outside-A/wrong-answer", fmt.Sprintf("%s.Contains(%s) but a point of %s is outside %s", X.name, Y.name, Y.name, X.name), det(map[string]any{"pair": tag, "probe": gen.Hex(p)}))
				break
			}
			if !xy && inX && inY {
				c.Violation("Loop/point-set/disjoint-but-common-point/wrong-answer", fmt.Sprintf("%s and %s reported disjoint but share a point", X.name, Y.name), det(map[string]any{"pair": tag, "probe": gen.Hex(p)}))
				break
			}
		}
		c.Count("laws.pairs", 1)
	}
	for _, X := range []*subject{A, B, Ai, Bi} {
		if !contains(X, X) {
			c.Violation("Loop/law/contains-itself/wrong-answer", X.name+".Contains("+X.name+") is false", det(nil))
		}
		if !intersects(X, X) {
			c.Violation("Loop/law/intersects-itself/wrong-answer", X.name+".Intersects("+X.name+") is false", det(nil))
		}
		if !X.poly.Contains(X.poly) || !X.poly.Intersects(X.poly) {
			c.Violation("Polygon/law/contains-intersects-itself/wrong-answer", "Polygon("+X.name+") does not contain/intersect itself", det(nil))
		}
	}
}

func pairCase(c *mon.Case, maxN int) {
	r := c.R
	ca := gen.RandCenter(r)
	na, nb := size(r, maxN), size(r, maxN)
	ra := gen.LogUniform(r, 1e-5, 1.4)
	if r.Intn(2) == 0 {
		ra = 0.05 + r.Float64()*1.3
	}
	a := mk(r, ca, na, ra)
	var b gen.LoopSpec
	truth := unknown
	kind := ""
	switch r.Intn(5) {
	case 0: // nested: B inside A's guaranteed inner disc
		if a.RMin <= 0 {
			return
		}
		rb := a.RMin * (0.05 + 0.8*r.Float64())
		off := (a.RMin - rb) * 0.9 * r.Float64()
		b = mk(r, gen.Near(r, ca, off), nb, rb)
		truth, kind = nested, "nested"
		c.Count("pairs.nested", 1)
	case 1: // disjoint
		rb := gen.LogUniform(r, 1e-5, 1.2)
		gap := gen.LogUniform(r, 1e-6, 0.5)
		d := a.RMax + rb + gap
		if d > math.Pi-0.01 {
			return
		}
		b = mk(r, gen.Near(r, ca, d), nb, rb)
		truth, kind = disjoint, "disjoint"
		c.Count("pairs.disjoint", 1)
	case 2: // crossing: discs overlap and neither contains the other
		a = gen.RegularSpec(ca, na+5, ra, r.Float64()*7)
		rb := ra * (0.3 + 1.2*r.Float64())
		if rb > 1.45 {
			rb = 1.45
		}
		b = gen.RegularSpec(ca, nb+5, rb, r.Float64()*7)
		// centre distance d with |outer difference| < d < sum of inner radii
		lo := math.Abs(a.RMax-b.RMax) + 0.1*math.Min(a.RMin, b.RMin)
		lo = math.Max(lo, math.Max(a.RMax-b.RMin, b.RMax-a.RMin)+1e-9)
		hi := (a.RMin + b.RMin) * 0.95
		if !(lo < hi) || hi > math.Pi-0.1 {
			return
		}
		d := lo + (hi-lo)*r.Float64()
		b = gen.RegularSpec(gen.Near(r, ca, d), len(b.Vs), rb, r.Float64()*7)
		truth, kind = crossing, "crossing"
		c.Count("pairs.crossing", 1)
	default: // arbitrary nearby pair: only laws and one-sided point-set checks apply
		rb := ra * gen.LogUniform(r, 0.05, 3)
		if rb > 1.45 {
			rb = 1.45
		}
		b = mk(r, gen.Near(r, ca, r.Float64()*(ra+rb)*1.1), nb, rb)
		kind = "arbitrary"
	}
	if len(b.Vs) == 0 {
		return
	}
	if na > 40 || nb > 40 {
		c.Count("pairs.big_index", 1)
	}
	var probes []s2.Point
	probes = append(probes, a.Vs[:minInt(len(a.Vs), 12)]...)
	probes = append(probes, b.Vs[:minInt(len(b.Vs), 12)]...)
	probes = append(probes, gen.BoundaryProbes(r, a.Vs, 8)...)
	probes = append(probes, gen.BoundaryProbes(r, b.Vs, 8)...)
	probes = append(probes, a.Center, b.Center, gen.Uniform(r), gen.Near(r, b.Center, b.RMax*r.Float64()), gen.Near(r, a.Center, a.RMax*r.Float64()))
	if truth != disjoint {
		c.Distinct(append(gen.Bits(a.Vs[0], b.Vs[0]), uint64(len(a.Vs)), uint64(len(b.Vs)))...)
	}
	checkPair(c, r, a.Vs, b.Vs, truth, kind, probes)
}

func minInt(a, b int) int {
	if a < b {
		return a
	}
	return b
}

// cellPairs: loops made from cells: siblings/edge neighbours share an edge
// (disjoint interiors), parent/child are nested with shared edges.
func cellPairs(c *mon.Case) {
	r := c.R
	lvl := 1 + r.Intn(20)
	id := gen.RandCellID(r, lvl)
	verts := func(id s2.CellID) []s2.Point {
		cell := s2.CellFromCellID(id)
		return []s2.Point{cell.Vertex(0), cell.Vertex(1), cell.Vertex(2), cell.Vertex(3)}
	}
	var other s2.CellID
	truth := unknown
	kind := ""
	switch r.Intn(4) {
	case 0:
		other = id.EdgeNeighbors()[r.Intn(4)]
		truth, kind = disjoint, "edge-neighbour cells of one level (shared edge)"
	case 1:
		vn := id.VertexNeighbors(lvl - 1)
		other = vn[r.Intn(len(vn))].Children()[r.Intn(4)]
		if other.Intersects(id) {
			return
		}
		truth, kind = disjoint, "nearby cells of one level (shared vertex, shared edge or apart)"
	case 2:
		// different levels: a vertex of one loop lies in the interior of an edge of the other (T-junction,
		// collinear overlapping edges). Under the library's perturbation model such a vertex is not on the
		// edge, so no two-sided ground truth is claimed: only the laws and the one-sided point-set checks apply.
		if lvl >= 29 {
			return
		}
		other = id.Children()[r.Intn(4)]
		if r.Intn(2) == 0 {
			other = other.Children()[r.Intn(4)]
		}
		kind = "cell and descendant (T-junctions: laws only)"
	default:
		other = gen.RandCellID(r, 1+r.Intn(20))
		if other.Intersects(id) {
			return
		}
		kind = "unrelated cells (laws only unless same level)"
		if other.Level() == lvl {
			truth = disjoint
		}
	}
	c.Count("pairs.shared_edge", 1)
	a, b := verts(id), verts(other)
	if truth != unknown {
		// same level: the loops either share vertices bit for bit or are clearly apart; a corner that is
		// "the same" only up to rounding (across cube faces) would make the truth depend on ulps
		for _, x := range a {
			for _, y := range b {
				if x != y && x.Distance(y).Radians() < 1e-12 {
					truth = unknown
				}
			}
		}
	}
	probes := append(append([]s2.Point{}, a...), b...)
	probes = append(probes, s2.CellFromCellID(id).Center(), s2.CellFromCellID(other).Center())
	for k := 0; k < 4; k++ {
		probes = append(probes, s2.Point{Vector: b[k].Add(b[(k+1)%4].Vector).Normalize()})
	}
	c.Distinct(uint64(id), uint64(other))
	checkPair(c, r, a, b, truth, kind, probes)
}

// polygonPairs: P = annulus-like polygon (shell with a concentric hole, maybe
// an island in the hole); Q = a small loop placed in the hole, in the body,
// outside, or across a boundary. Ground truth from the radii bands.
func polygonPairs(c *mon.Case) {
	r := c.R
	ctr := gen.RandCenter(r)
	R := gen.LogUniform(r, 1e-3, 1.2)
	shell := gen.RegularSpec(ctr, 8+r.Intn(60), R, r.Float64()*7)
	hR := shell.RMin * (0.3 + 0.4*r.Float64())
	hole := gen.RegularSpec(ctr, 6+r.Intn(40), hR, r.Float64()*7)
	loops := [][]s2.Point{shell.Vs, hole.Vs}
	var island gen.LoopSpec
	hasIsland := r.Intn(2) == 0
	if hasIsland {
		island = gen.RegularSpec(ctr, 5+r.Intn(20), hole.RMin*0.4, r.Float64()*7)
		loops = append(loops, island.Vs)
	}
	// a lake in the island (nesting depth 3) and far-away extra shells (so that the largest shell is not
	// necessarily the polygon's first loop)
	var lake gen.LoopSpec
	hasLake := hasIsland && r.Intn(2) == 0
	if hasLake {
		lake = gen.RegularSpec(ctr, 5+r.Intn(20), island.RMin*0.4, r.Float64()*7)
		loops = append(loops, lake.Vs)
	}
	var extras []gen.LoopSpec
	if R < 0.4 && r.Intn(2) == 0 {
		az0 := r.Float64() * 2 * math.Pi
		for k := 0; k < 1+r.Intn(2); k++ { // on opposite sides of the main shell, so that they cannot meet each other
			rs := R * (0.05 + 0.1*r.Float64())
			x, y, z := gen.Frame(ctr)
			cc := gen.AtPolar(x, y, z, shell.RMax+2*R+rs, az0+math.Pi*float64(k))
			ex := gen.RegularSpec(cc, 3+r.Intn(10), rs, r.Float64()*7)
			extras = append(extras, ex)
			loops = append(loops, ex.Vs)
			c.Count("polygons.extra_shells", 1)
		}
	}
	build := func(ls [][]s2.Point) *s2.Polygon {
		var x []*s2.Loop
		for _, k := range r.Perm(len(ls)) {
			x = append(x, s2.LoopFromPoints(append([]s2.Point(nil), ls[k]...)))
		}
		return s2.PolygonFromLoops(x)
	}
	P := build(loops)
	// body band: radii in (hole.RMax, shell.RMin); hole band: (islandRMax, hole.RMin)
	type place struct {
		name                   string
		d, rq                  float64
		pContains, pIntersects bool
		known                  bool
	}
	bodyLo, bodyHi := hole.RMax, shell.RMin
	var pl place
	islandR := 0.0
	if hasIsland {
		islandR = island.RMax
	}
	conc := func(name string, lo, hi float64, contains bool) { // Q concentric with the rings, its boundary in the band (lo, hi)
		pl = place{name, 0, lo + (hi-lo)*(0.35+0.3*r.Float64()), contains, true, true}
	}
	switch r.Intn(8) {
	case 5: // Q's boundary lies in the body and Q swallows the hole (with island, lake)
		conc("around-hole", hole.RMax, shell.RMin, false)
	case 6:
		if hasIsland { // boundary in the hole, Q swallows the island
			conc("around-island", island.RMax, hole.RMin, false)
		} else {
			conc("around-hole", hole.RMax, shell.RMin, false)
		}
	case 7:
		if hasLake { // boundary in the island, Q swallows the lake (a hole at depth 3)
			conc("around-lake", lake.RMax, island.RMin, false)
		} else {
			conc("around-hole", hole.RMax, shell.RMin, false)
		}
	case 0: // inside the body
		w := (bodyHi - bodyLo)
		rq := w * 0.3 * (0.1 + 0.8*r.Float64())
		pl = place{"in-body", bodyLo + rq*1.2 + (w-2.4*rq)*r.Float64(), rq, true, true, true}
	case 1: // inside the hole (outside the island)
		w := hole.RMin - islandR
		rq := w * 0.3 * (0.1 + 0.8*r.Float64())
		pl = place{"in-hole", islandR + rq*1.2 + (w-2.4*rq)*r.Float64(), rq, false, false, true}
	case 2: // outside the shell
		rq := R * (0.05 + 0.5*r.Float64())
		pl = place{"outside", shell.RMax + rq*1.2 + 0.2*R*r.Float64(), rq, false, false, true}
	case 3: // straddling the shell boundary
		rq := (bodyHi - bodyLo) * 0.3
		pl = place{"across-shell", (shell.RMin + shell.RMax) / 2, rq, false, true, true}
	default: // straddling the hole boundary
		rq := math.Min(bodyHi-bodyLo, hole.RMin-islandR) * 0.3
		pl = place{"across-hole", (hole.RMin + hole.RMax) / 2, rq, false, true, true}
	}
	if pl.rq <= 0 || pl.d+pl.rq > math.Pi/2 {
		return
	}
	q := gen.RegularSpec(gen.Near(r, ctr, pl.d), 4+r.Intn(40), pl.rq, r.Float64()*7)
	if r.Intn(10) == 0 { // Q is exactly the hole's loop as a shell (the "plug" of the hole): every edge shared, reversed
		pl = place{"plug-of-hole", 0, hole.RMax, false, false, true}
		q = gen.LoopSpec{Vs: hole.Vs, Center: ctr, RMin: hole.RMin, RMax: hole.RMax, Kind: "plug"}
		if hasIsland {
			pl.pIntersects = true // the island lies inside the plug
		}
		c.Count("polygons.plug_of_hole", 1)
	} else if len(extras) > 0 && r.Intn(4) == 0 { // Q inside one of the far-away extra shells
		ex := extras[r.Intn(len(extras))]
		pl = place{"in-extra-shell", 0, ex.RMin * 0.4, true, true, true}
		q = gen.RegularSpec(gen.Near(r, ex.Center, ex.RMin*0.3*r.Float64()), 3+r.Intn(10), pl.rq, r.Float64()*7)
		c.Count("polygons.q_in_extra_shell", 1)
	}
	if len(pl.name) > 6 && pl.name[:6] == "around" {
		q = gen.RegularSpec(ctr, 24+r.Intn(40), pl.rq, r.Float64()*7)
		c.Count("polygons.concentric_"+pl.name, 1)
		// the whole boundary of Q must lie strictly inside its band
		var lo, hi float64
		switch pl.name {
		case "around-hole":
			lo, hi = hole.RMax, shell.RMin
		case "around-island":
			lo, hi = island.RMax, hole.RMin
		default:
			lo, hi = lake.RMax, island.RMin
		}
		if !(q.RMin > lo*1.01 && q.RMax < hi*0.99) {
			pl.known = false
		}
	}
	// "across" placements need the small loop to really reach both sides: its inner radius must exceed the band half-width
	if pl.name == "across-shell" && q.RMin <= (shell.RMax-shell.RMin)/2 {
		pl.known = false
	}
	if pl.name == "across-hole" && q.RMin <= (hole.RMax-hole.RMin)/2 {
		pl.known = false
	}
	Q := build([][]s2.Point{q.Vs})
	det := map[string]any{"placement": pl.name, "shell_n": len(shell.Vs), "hole_n": len(hole.Vs), "island": hasIsland, "q_n": len(q.Vs), "shell_head": head(shell.Vs), "q_head": head(q.Vs)}
	if c.I < 2 {
		c.Sample(det)
	}
	c.Count("polygons.pairs", 1)
	c.Distinct(gen.Bits(shell.Vs[0], q.Vs[0])...)
	pc, pi, qi, qc := P.Contains(Q), P.Intersects(Q), Q.Intersects(P), Q.Contains(P)
	if pi != qi {
		c.Violation("Polygon/law/Intersects-symmetric/wrong-answer", fmt.Sprintf("P.Intersects(Q)=%v, Q.Intersects(P)=%v", pi, qi), det)
	}
	if qc {
		c.Violation("Polygon/ground-truth/small-contains-big/wrong-answer", "the small loop is reported to contain the annulus", det)
	}
	if pl.known {
		if pc != pl.pContains {
			c.Violation("Polygon/ground-truth/"+pl.name+"/Contains/wrong-answer", fmt.Sprintf("P.Contains(Q)=%v for Q %s", pc, pl.name), det)
		}
		if pi != pl.pIntersects {
			c.Violation("Polygon/ground-truth/"+pl.name+"/Intersects/wrong-answer", fmt.Sprintf("P.Intersects(Q)=%v for Q %s", pi, pl.name), det)
		}
	}
	// complement laws on polygons
	Pc := build(loops)
	Pc.Invert()
	Qc := build([][]s2.Point{q.Vs})
	Qc.Invert()
	if got := Pc.Contains(Q); got == pi {
		c.Violation("Polygon/law/Intersects-iff-complement-not-contains/wrong-answer", fmt.Sprintf("P.Intersects(Q)=%v but ~P.Contains(Q)=%v", pi, got), det)
	}
	if got := Qc.Contains(Pc); got != pc {
		c.Violation("Polygon/law/Contains-iff-complements-reversed/wrong-answer", fmt.Sprintf("P.Contains(Q)=%v but ~Q.Contains(~P)=%v", pc, got), det)
	}
	// the same two laws with the roles of P and Q exchanged
	if got := Qc.Contains(P); got == qi {
		c.Violation("Polygon/law/Intersects-iff-complement-not-contains/wrong-answer", fmt.Sprintf("Q.Intersects(P)=%v but ~Q.Contains(P)=%v", qi, got), det)
	}
	if got := Pc.Contains(Qc); got != qc {
		c.Violation("Polygon/law/Contains-iff-complements-reversed/wrong-answer", fmt.Sprintf("Q.Contains(P)=%v but ~P.Contains(~Q)=%v", qc, got), det)
	}
	if !P.Contains(P) || !P.Intersects(P) {
		var all [][]string
		for _, l := range loops {
			all = append(all, gen.HexAll(l...))
		}
		det["loops"] = all
		det["contains_itself"], det["intersects_itself"] = P.Contains(P), P.Intersects(P)
		c.Violation("Polygon/law/contains-intersects-itself/wrong-answer", "the polygon does not contain/intersect itself", det)
	}
}
