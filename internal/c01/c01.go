// Package c01 monitors C01: cell ids form a consistent, invertible quadtree
// along the Hilbert curve.
package c01

import (
	"fmt"
	"math"
	"math/bits"
	"math/rand"

	"github.com/golang/geo/r3"
	"github.com/golang/geo/s2"

	"verif/internal/gen"
	"verif/internal/mon"
	"verif/internal/ref"
)

var exhaustLevel = 6

func Run(m *mon.M) {
	exhaustLevel = m.N(6, 9)
	m.Rule = fmt.Sprintf("(a) EXHAUSTIVE over every cell id of levels 0..%d on all 6 faces; (b) boundary-targeted ids at every level 0..30 (cells in face corners and along face edges, and random ones); (c) points exactly on / within 0..3 ulps of cell, face and cube-corner boundaries at every level, plus uniform points. A case is non-trivial and distinct when new AND (an id touching a face edge or cube corner, or a point within 4 ulps of a cell boundary of its level)", exhaustLevel)
	m.Assumptions = []string{"the id layout (3 face bits, 2 bits per level, trailing 1) as documented", "internal/ref orientation for the geometric containment cross-check; Cell.Vertex geometry for the adjacency oracle (two cells of one level share an edge iff they share two vertices) - C12 monitors Cell.Vertex"}
	m.Extra["exhaustive_subspace"] = fmt.Sprintf("all %d cell ids of levels 0..%d", 6*(pow4(exhaustLevel+1)-1)/3, exhaustLevel)
	m.Exhaustive = true
	m.Require("ids.face_boundary", 1000)
	m.Require("points.near_boundary", 10000)
	m.Require("neighbors.cube_corner", 24)

	total := 6 * (pow4(exhaustLevel+1) - 1) / 3
	m.Stream("ids.exhaustive", total, func(c *mon.Case) { checkID(c, nthID(int(c.I)), c.I%7 == 0) })
	m.Stream("ids.boundary", m.N(150000, 4000000), idsBoundary)
	m.Stream("advance", m.N(20000, 1000000), advance)
	m.Stream("points", m.N(600000, 20000000), points)
	// cold start: the first library call of a fresh process is an operation on an id that did not come
	// from a point conversion (one child process per case, so that nothing has warmed any table)
	m.Require("coldstart.checked", 48)
	for rnd := 0; rnd < m.N(1, 8); rnd++ {
		mon.RunChildren(m, "c01", "coldstart", int64(rnd)*64, int64(rnd+1)*64, 16, func(d mon.Death) (string, string, any) {
			return "coldstart/child-died/" + d.Kind, "a fresh process whose first library call is an id operation died: " + d.Stderr, map[string]any{"exit": d.Exit, "index": d.Index}
		})
	}
}

// Worker runs cold-start cases in a child process.
func Worker(args []string) { mon.ChildMain("C01", "coldstart", args, 0, 120, coldCase) }

func coldCase(c *mon.Case) {
	r := c.R
	level, face := r.Intn(31), r.Intn(6)
	id := s2.CellIDFromFacePosLevel(face, r.Uint64()>>3, level)
	type obs struct {
		p, center s2.Point
		ll        s2.LatLng
		v         [4]s2.Point
		nb        [4]s2.CellID
		tok       string
	}
	observe := func(first int) obs {
		var o obs
		for k := 0; k < 5; k++ {
			switch (first + k) % 5 {
			case 0:
				o.p = id.Point()
			case 1:
				o.ll = id.LatLng()
			case 2:
				cell := s2.CellFromCellID(id)
				o.center = cell.Center()
				for j := 0; j < 4; j++ {
					o.v[j] = cell.Vertex(j)
				}
			case 3:
				o.nb = id.EdgeNeighbors()
			case 4:
				o.tok = id.ToToken()
			}
		}
		return o
	}
	cold := observe(int(c.I))
	back := s2.CellFromPoint(cold.p).ID() // the first point conversion of the process
	warm := observe(int(c.I))
	c.Count("coldstart.checked", 1)
	c.Distinct(uint64(id))
	det := map[string]any{"id": fmt.Sprintf("%d/%x level %d", face, uint64(id), level), "token": cold.tok, "first_operation": []string{"Point", "LatLng", "CellFromCellID", "EdgeNeighbors", "ToToken"}[c.I%5]}
	if c.I < 2 {
		c.Sample(det)
	}
	if cold != warm {
		c.Violation("coldstart/answers-change-after-first-point-conversion/wrong-answer", fmt.Sprintf("Point/LatLng/Cell/EdgeNeighbors of id %s differ between the first calls of a fresh process and the same calls after a point was converted to an id", cold.tok), det)
	}
	if back.Parent(level) != id {
		c.Violation("coldstart/centre-maps-to-another-cell/wrong-answer", fmt.Sprintf("in a fresh process the centre of %s converts back to %s", cold.tok, back.Parent(level).ToToken()), det)
	}
}

func pow4(n int) int { return 1 << uint(2*n) }

// nthID enumerates all ids of levels 0..exhaustLevel: level by level, face by face.
func nthID(n int) s2.CellID {
	for l := 0; ; l++ {
		cnt := 6 * pow4(l)
		if n < cnt {
			face := n / pow4(l)
			k := uint64(n % pow4(l))
			// position bits: k in the top 2l bits of the 60-bit position, then the trailing 1
			pos := k<<uint(60-2*l+1) | uint64(1)<<uint(60-2*l)
			return s2.CellID(uint64(face)<<61 | pos)
		}
		n -= cnt
	}
}

func levelOf(id uint64) int { return 30 - bits.TrailingZeros64(id)/2 }

func vstr(p s2.Point) string { return gen.Hex(p) }

// shared counts vertices of a that coincide (within tol) with a vertex of b.
func shared(a, b s2.Cell, tol float64) int {
	n := 0
	for i := 0; i < 4; i++ {
		for j := 0; j < 4; j++ {
			if a.Vertex(i).Sub(b.Vertex(j).Vector).Norm() <= tol {
				n++
				break
			}
		}
	}
	return n
}

// distPointSeg: plain float distance from p to geodesic segment ab (monitor's own formula).
func distPointSeg(p, a, b s2.Point) float64 {
	// (a+b) x (b-a) = 2 a x b, but accurate to ~1 ulp in direction even for nanometre edges
	n := a.Add(b.Vector).Cross(b.Sub(a.Vector))
	if n.Norm2() == 0 {
		return p.Sub(a.Vector).Norm()
	}
	n = n.Normalize()
	// inside the lune of the segment?
	if a.Cross(p.Vector).Dot(n) >= 0 && p.Cross(b.Vector).Dot(n) >= 0 {
		return math.Abs(p.Dot(n))
	}
	return math.Min(p.Sub(a.Vector).Norm(), p.Sub(b.Vector).Norm())
}

// touches: some vertex of one cell lies on the boundary of the other (within tol).
func touches(a, b s2.Cell, tol float64) bool {
	for _, pr := range [][2]s2.Cell{{a, b}, {b, a}} {
		for i := 0; i < 4; i++ {
			v := pr[0].Vertex(i)
			for k := 0; k < 4; k++ {
				if distPointSeg(v, pr[1].Vertex(k), pr[1].Vertex((k+1)%4)) <= tol {
					return true
				}
			}
		}
	}
	return false
}

func isCubeCorner(p s2.Point) bool {
	return math.Abs(math.Abs(p.X)-math.Abs(p.Y)) < 1e-15 && math.Abs(math.Abs(p.Y)-math.Abs(p.Z)) < 1e-15
}

func onFaceBoundary(c s2.Cell) bool {
	// a cell touches its face's boundary iff one of its vertices has two coordinates of equal magnitude (the largest ones)
	for k := 0; k < 4; k++ {
		v := c.Vertex(k)
		a := []float64{math.Abs(v.X), math.Abs(v.Y), math.Abs(v.Z)}
		mx := math.Max(a[0], math.Max(a[1], a[2]))
		cnt := 0
		for _, x := range a {
			if mx-x < 1e-15 {
				cnt++
			}
		}
		if cnt >= 2 {
			return true
		}
	}
	return false
}

func checkID(c *mon.Case, id s2.CellID, heavy bool) {
	u := uint64(id)
	det := func() any { return map[string]any{"id": fmt.Sprintf("%016x", u), "token": id.ToToken()} }
	c.Count("ids.checked", 1)
	if !id.IsValid() || !ref.ValidCellID(u) {
		c.Violation("ids/invalid-generated-id", "generator produced an invalid id (monitor bug) or IsValid disagrees with the layout", det())
		return
	}
	lvl := levelOf(u)
	lsb := u & -u
	if id.Level() != lvl {
		c.Violation("Level/wrong-answer", fmt.Sprintf("Level()=%d, trailing-bit layout says %d", id.Level(), lvl), det())
	}
	if id.Face() != int(u>>61) {
		c.Violation("Face/wrong-answer", "Face() disagrees with the top three bits", det())
	}
	if id.IsLeaf() != (lvl == 30) {
		c.Violation("IsLeaf/wrong-answer", "IsLeaf disagrees with the level", det())
	}
	// representations round-trip
	if got := s2.CellIDFromToken(id.ToToken()); got != id {
		c.Violation("Token/round-trip/wrong-answer", fmt.Sprintf("CellIDFromToken(ToToken()) = %x", uint64(got)), det())
	}
	if got := s2.CellIDFromString(id.String()); got != id {
		c.Violation("String/round-trip/wrong-answer", fmt.Sprintf("CellIDFromString(%q) = %x", id.String(), uint64(got)), det())
	}
	if got := s2.CellIDFromFacePosLevel(id.Face(), id.Pos(), lvl); got != id {
		c.Violation("FacePosLevel/round-trip/wrong-answer", fmt.Sprintf("CellIDFromFacePosLevel(Face,Pos,Level) = %x", uint64(got)), det())
	}
	if uint64(id.RangeMin()) != u-(lsb-1) || uint64(id.RangeMax()) != u+(lsb-1) {
		c.Violation("Range/wrong-answer", "RangeMin/RangeMax disagree with the bit layout", det())
	}
	// ancestors
	for l := 0; l <= lvl; l++ {
		p := id.Parent(l)
		if levelOf(uint64(p)) != l || !(p.RangeMin() <= id.RangeMin() && id.RangeMax() <= p.RangeMax()) || !p.Contains(id) {
			c.Violation("Parent/wrong-answer", fmt.Sprintf("Parent(%d)=%x is not the level-%d ancestor", l, uint64(p), l), det())
			break
		}
		if l < lvl && id.ChildPosition(l+1) != int((u>>uint(2*(30-(l+1))+1))&3) {
			c.Violation("ChildPosition/wrong-answer", "ChildPosition disagrees with the bit layout", det())
		}
	}
	// children partition the range in curve order
	if lvl < 30 {
		ch := id.Children()
		next := id.RangeMin()
		for k := 0; k < 4; k++ {
			if levelOf(uint64(ch[k])) != lvl+1 || ch[k].RangeMin() != next || ch[k].Parent(lvl) != id {
				c.Violation("Children/partition/wrong-answer", fmt.Sprintf("child %d = %x does not continue the partition of the parent's leaf range", k, uint64(ch[k])), det())
			}
			next = ch[k].RangeMax().Next()
		}
		if next != id.RangeMax().Next() {
			c.Violation("Children/partition/wrong-answer", "children do not end at the parent's RangeMax", det())
		}
		if id.ChildBegin() != ch[0] || id.ChildEnd() != ch[3].Next() {
			c.Violation("ChildBegin-End/wrong-answer", "ChildBegin/ChildEnd disagree with Children()", det())
		}
		dl := lvl + 1 + int(u%5)
		if dl > 30 {
			dl = 30
		}
		if b := id.ChildBeginAtLevel(dl); b.RangeMin() != id.RangeMin() || levelOf(uint64(b)) != dl {
			c.Violation("ChildBeginAtLevel/wrong-answer", "ChildBeginAtLevel is not the first descendant", det())
		}
		if e := id.ChildEndAtLevel(dl).Prev(); e.RangeMax() != id.RangeMax() || levelOf(uint64(e)) != dl {
			c.Violation("ChildEndAtLevel/wrong-answer", "ChildEndAtLevel is not one past the last descendant", det())
		}
	}
	if !heavy && lvl > 3 {
		return
	}
	// geometry-backed checks
	cell := s2.CellFromCellID(id)
	size := cell.Vertex(0).Sub(cell.Vertex(2).Vector).Norm() // diagonal
	tol := 1e-13
	_ = size
	boundary := onFaceBoundary(cell)
	if boundary {
		c.Count("ids.face_boundary", 1)
		c.Distinct(u)
	}
	// consecutive cells along the curve share an edge
	nx := id.NextWrap()
	if !nx.IsValid() || levelOf(uint64(nx)) != lvl {
		c.Violation("NextWrap/invalid/wrong-answer", "NextWrap is not a valid cell of the same level", det())
	} else if n := shared(cell, s2.CellFromCellID(nx), tol); n != 2 {
		c.Violation("Next/not-edge-adjacent/wrong-answer", fmt.Sprintf("the next cell along the curve shares %d vertices with this one (2 = a common edge)", n), det())
	}
	if id.Next() != nx && !(id.RangeMax() == s2.CellIDFromFace(5).RangeMax()) {
		c.Violation("Next-vs-NextWrap/wrong-answer", "Next and NextWrap differ away from the end of the curve", det())
	}
	if nx.PrevWrap() != id {
		c.Violation("PrevWrap/inverse/wrong-answer", "PrevWrap(NextWrap(id)) != id", det())
	}
	// edge neighbours
	en := id.EdgeNeighbors()
	for i := 0; i < 4; i++ {
		nb := en[i]
		if !nb.IsValid() || levelOf(uint64(nb)) != lvl {
			c.Violation("EdgeNeighbors/level/wrong-answer", fmt.Sprintf("edge neighbour %d = %x is not a valid cell of level %d", i, uint64(nb), lvl), det())
			continue
		}
		for j := 0; j < i; j++ {
			if en[j] == nb {
				c.Violation("EdgeNeighbors/not-distinct/wrong-answer", "two edge neighbours are the same cell", det())
			}
		}
		if nb.Intersects(id) {
			c.Violation("EdgeNeighbors/not-disjoint/wrong-answer", "an edge neighbour intersects the cell", det())
		} else if n := shared(cell, s2.CellFromCellID(nb), tol); n != 2 {
			c.Violation("EdgeNeighbors/not-adjacent/wrong-answer", fmt.Sprintf("edge neighbour %d = %s shares %d vertices with the cell (2 = a common edge)", i, nb.ToToken(), n), det())
		}
		// symmetry
		back := false
		for _, x := range nb.EdgeNeighbors() {
			if x == id {
				back = true
			}
		}
		if !back {
			c.Violation("EdgeNeighbors/asymmetric/wrong-answer", "the cell is not an edge neighbour of its edge neighbour "+nb.ToToken(), det())
		}
	}
	// vertex neighbours at a coarser-or-equal level
	if lvl > 0 {
		vl := int(u>>3) % lvl // 0..lvl-1
		if c.R.Intn(2) == 0 {
			vl = lvl - 1
		}
		vn := id.VertexNeighbors(vl)
		if len(vn) != 3 && len(vn) != 4 {
			c.Violation("VertexNeighbors/count/wrong-answer", fmt.Sprintf("%d vertex neighbours", len(vn)), det())
		}
		containing := 0
		var cells []s2.Cell
		for i, nb := range vn {
			if !nb.IsValid() || levelOf(uint64(nb)) != vl {
				c.Violation("VertexNeighbors/level/wrong-answer", fmt.Sprintf("vertex neighbour %x is not a valid cell of the requested level %d", uint64(nb), vl), det())
				continue
			}
			for j := 0; j < i; j++ {
				if vn[j] == nb {
					c.Violation("VertexNeighbors/not-distinct/wrong-answer", "two vertex neighbours are the same cell", det())
				}
			}
			if nb.Contains(id) {
				containing++
			} else if nb.Intersects(id) {
				c.Violation("VertexNeighbors/not-disjoint/wrong-answer", "a vertex neighbour other than the ancestor intersects the cell", det())
			}
			cells = append(cells, s2.CellFromCellID(nb))
		}
		if containing != 1 {
			c.Violation("VertexNeighbors/ancestor/wrong-answer", fmt.Sprintf("%d of the vertex neighbours contain the cell (exactly the ancestor should)", containing), det())
		}
		// all of them meet in one common vertex
		if len(cells) == len(vn) && len(cells) >= 3 {
			common := false
			for k := 0; k < 4 && !common; k++ {
				v := cells[0].Vertex(k)
				all := true
				for _, o := range cells[1:] {
					hit := false
					for j := 0; j < 4; j++ {
						if o.Vertex(j).Sub(v.Vector).Norm() <= tol {
							hit = true
						}
					}
					all = all && hit
				}
				if all {
					common = true
					if (len(cells) == 3) != isCubeCorner(v) {
						c.Violation("VertexNeighbors/count-vs-cube-corner/wrong-answer", fmt.Sprintf("%d neighbours around a vertex that %s a cube corner", len(cells), map[bool]string{true: "is", false: "is not"}[isCubeCorner(v)]), det())
					}
					if isCubeCorner(v) {
						c.Count("neighbors.cube_corner", 1)
					}
				}
			}
			if !common {
				c.Violation("VertexNeighbors/no-common-vertex/wrong-answer", "the vertex neighbours do not share one vertex", det())
			}
		}
	}
	// all neighbours at a finer-or-equal level
	al := lvl + int(u>>5)%3
	if al > 30 {
		al = 30
	}
	an := id.AllNeighbors(al)
	corners := 0
	for k := 0; k < 4; k++ {
		if isCubeCorner(cell.Vertex(k)) {
			corners++
		}
	}
	if corners > 0 {
		c.Count("neighbors.cube_corner", 1)
	}
	wantN := 4*(1<<uint(al-lvl)) + 4 - corners
	if lvl == 0 {
		wantN = -1 // a face's neighbours wrap around the cube: count not asserted
	}
	seen := map[s2.CellID]bool{}
	for _, nb := range an {
		seen[nb] = true
	}
	// (the documentation allows the same neighbour to be returned twice next to a cube corner: count the set)
	if wantN >= 0 && len(seen) != wantN {
		c.Violation("AllNeighbors/count/wrong-answer", fmt.Sprintf("%d distinct neighbours at level %d, expected %d (cell has %d cube-corner vertices)", len(seen), al, wantN, corners), det())
	}
	seen = map[s2.CellID]bool{}
	for _, nb := range an {
		if !nb.IsValid() || levelOf(uint64(nb)) != al {
			c.Violation("AllNeighbors/level/wrong-answer", fmt.Sprintf("neighbour %x is not a valid cell of the requested level %d", uint64(nb), al), det())
			continue
		}
		if seen[nb] {
			continue
		}
		seen[nb] = true
		if nb.Intersects(id) {
			c.Violation("AllNeighbors/not-disjoint/wrong-answer", "neighbour "+nb.ToToken()+" intersects the cell", det())
		} else if !touches(cell, s2.CellFromCellID(nb), tol) {
			c.Violation("AllNeighbors/not-touching/wrong-answer", "neighbour "+nb.ToToken()+" does not touch the cell", det())
		}
	}
}

// idsBoundary: ids at every level concentrated in face corners and along face edges.
func idsBoundary(c *mon.Case) {
	r := c.R
	lvl := r.Intn(31)
	face := s2.CellIDFromFace(r.Intn(6))
	var id s2.CellID
	switch r.Intn(5) {
	case 0: // a corner of the face: repeatedly take the same child position
		id = face
		k := r.Intn(4)
		for id.Level() < lvl {
			id = id.Children()[k]
		}
	case 1, 2: // along a face edge: start from a face-boundary point
		p := gen.OnPlane(r, 3+r.Intn(6))
		id = s2.CellFromPoint(p).ID().Parent(lvl)
	case 3: // first / last cell of a face at this level
		if r.Intn(2) == 0 {
			id = face.ChildBeginAtLevel(lvl)
		} else {
			id = face.ChildEndAtLevel(lvl).Prev()
		}
	default:
		id = gen.RandCellID(r, lvl)
	}
	if c.I < 3 {
		c.Sample(map[string]any{"id": id.ToToken(), "level": lvl})
	}
	checkID(c, id, true)
	// the level of the lowest common ancestor with related cells, in both argument orders
	{
		partners := []s2.CellID{id, id.Parent(r.Intn(lvl + 1)), id.Next(), id.Prev(), id.EdgeNeighbors()[r.Intn(4)], gen.RandCellID(r, r.Intn(31))}
		d := id
		for d.Level() < 30 && r.Intn(6) != 0 {
			d = d.Children()[r.Intn(4)]
		}
		partners = append(partners, d)
		if k := r.Intn(lvl + 1); k < 30 { // a cell below a sibling of one of the ancestors
			d = id.Parent(k).Children()[r.Intn(4)]
			for d.Level() < 30 && r.Intn(4) != 0 {
				d = d.Children()[r.Intn(4)]
			}
			partners = append(partners, d)
		}
		for _, o := range partners {
			if !o.IsValid() {
				continue
			}
			want, wantOK := -1, false
			for L := minInt(id.Level(), o.Level()); L >= 0; L-- {
				if id.Parent(L) == o.Parent(L) {
					want, wantOK = L, true
					break
				}
			}
			c.Count("ids.common_ancestor_pairs", 1)
			for _, pr := range [][2]s2.CellID{{id, o}, {o, id}} {
				got, ok := pr[0].CommonAncestorLevel(pr[1])
				if ok != wantOK || (ok && got != want) {
					c.Violation("CommonAncestorLevel/wrong-answer", fmt.Sprintf("%s.CommonAncestorLevel(%s) = (%d,%v); the deepest level at which both have the same Parent is %d (exists: %v)", pr[0].ToToken(), pr[1].ToToken(), got, ok, want, wantOK), map[string]any{"a": pr[0].ToToken(), "b": pr[1].ToToken()})
					break
				}
			}
		}
	}
	// also its curve neighbours and its edge neighbours (these cross faces)
	if r.Intn(3) == 0 {
		checkID(c, id.EdgeNeighbors()[r.Intn(4)], true)
	}
}

func advance(c *mon.Case) {
	r := c.R
	lvl := r.Intn(31)
	if r.Intn(2) == 0 {
		lvl = r.Intn(4)
	}
	id := gen.RandCellID(r, lvl)
	if r.Intn(3) == 0 {
		if r.Intn(2) == 0 {
			id = s2.CellIDFromFace(5).ChildEndAtLevel(lvl).Prev().AdvanceWrap(-int64(r.Intn(5)))
		} else {
			id = s2.CellIDFromFace(0).ChildBeginAtLevel(lvl).AdvanceWrap(int64(r.Intn(5)))
		}
	}
	// total number of cells at this level
	var total uint64 = 6 << uint(2*lvl)
	// position of id along the curve at this level
	idx := uint64(id) >> uint(2*(30-lvl)+1)
	var steps int64
	switch r.Intn(5) {
	case 0:
		steps = int64(r.Intn(9) - 4)
	case 1: // land exactly on / next to the last or first cell, possibly after whole laps
		target := []uint64{total - 1, 0, total - 2, 1}[r.Intn(4)]
		steps = int64(target) - int64(idx)
		if lvl < 28 {
			steps += int64(total) * int64(r.Intn(5)-2)
		}
	case 2:
		steps = int64(total) * int64(r.Intn(3)-1)
	case 3:
		steps = r.Int63n(1<<40) - (1 << 39)
	default:
		steps = int64(r.Uint64())
	}
	det := map[string]any{"id": id.ToToken(), "level": lvl, "steps": steps}
	if c.I < 3 {
		c.Sample(det)
	}
	c.Count("advance.calls", 1)
	c.Distinct(uint64(id), uint64(steps))
	// model: index arithmetic modulo the number of cells
	mod := func(a int64, m uint64) uint64 {
		if m > math.MaxInt64 {
			// total = 6*4^30 fits in int64 (6.9e18 < 9.2e18)
		}
		mm := int64(m)
		x := a % mm
		if x < 0 {
			x += mm
		}
		return uint64(x)
	}
	wantIdx := (idx + mod(steps, total)) % total
	want := s2.CellID(wantIdx<<uint(2*(30-lvl)+1) | uint64(1)<<uint(2*(30-lvl)))
	got := id.AdvanceWrap(steps)
	if got != want {
		c.Violation("AdvanceWrap/wrong-answer", fmt.Sprintf("AdvanceWrap(%d) = %x, curve arithmetic gives %x", steps, uint64(got), uint64(want)), det)
	}
	// Advance clamps to [begin, end]
	wantA := int64(idx) + 0
	var clampIdx uint64
	switch {
	case steps < 0 && uint64(-(steps+1))+1 > idx:
		clampIdx = 0
	case steps > 0 && uint64(steps) > total-idx:
		clampIdx = total
	default:
		clampIdx = uint64(wantA + steps)
	}
	gotA := id.Advance(steps)
	var wantAdv s2.CellID
	if clampIdx == total {
		wantAdv = s2.CellIDFromFace(5).ChildEndAtLevel(lvl)
	} else {
		wantAdv = s2.CellID(clampIdx<<uint(2*(30-lvl)+1) | uint64(1)<<uint(2*(30-lvl)))
	}
	if gotA != wantAdv {
		c.Violation("Advance/wrong-answer", fmt.Sprintf("Advance(%d) = %x, clamped curve arithmetic gives %x", steps, uint64(gotA), uint64(wantAdv)), det)
	}
	// small steps equal repeated NextWrap / PrevWrap
	if steps >= -4 && steps <= 4 {
		x := id
		for k := int64(0); k < steps; k++ {
			x = x.NextWrap()
		}
		for k := int64(0); k > steps; k-- {
			x = x.PrevWrap()
		}
		if x != got {
			c.Violation("AdvanceWrap/vs-NextWrap/wrong-answer", "AdvanceWrap(k) differs from k applications of NextWrap/PrevWrap", det)
		}
	}
}

// inQuadTol: p is inside or within tol of the spherical quadrilateral of the cell's vertices.
func inQuadTol(cell s2.Cell, p s2.Point, tol float64) bool {
	for k := 0; k < 4; k++ {
		a, b := cell.Vertex(k), cell.Vertex((k+1)%4)
		if ref.Orient(gen.V(a), gen.V(b), gen.V(p)) < 0 && distPointSeg(p, a, b) > tol {
			// outside this edge's great circle by more than tol (distance to the segment >= distance to the circle)
			n := a.Add(b.Vector).Cross(b.Sub(a.Vector)).Normalize()
			if math.Abs(p.Dot(n)) > tol {
				return false
			}
		}
	}
	return true
}

func points(c *mon.Case) {
	r := c.R
	var p s2.Point
	near := false
	switch r.Intn(8) {
	case 0:
		p = gen.Uniform(r)
	case 1: // exactly on a face boundary / cube corner
		if r.Intn(3) == 0 {
			p = gen.Special(r)
		} else {
			p = gen.OnPlane(r, 3+r.Intn(6))
		}
		p = gen.NudgeUlps(r, p, r.Intn(4))
		near = true
	case 2, 3: // a vertex of a cell at some level, nudged
		cell := s2.CellFromCellID(gen.RandCellID(r, r.Intn(31)))
		p = gen.NudgeUlps(r, cell.Vertex(r.Intn(4)), r.Intn(4))
		near = true
	case 4, 5: // on an edge of a cell at some level, nudged
		cell := s2.CellFromCellID(gen.RandCellID(r, r.Intn(31)))
		k := r.Intn(4)
		t := r.Float64()
		v := cell.Vertex(k).Mul(1 - t).Add(cell.Vertex((k + 1) % 4).Mul(t))
		p = gen.NudgeUlps(r, s2.Point{Vector: v.Normalize()}, r.Intn(4))
		near = true
	case 6: // cell centre
		p = s2.CellFromCellID(gen.RandCellID(r, r.Intn(31))).Center()
		if r.Intn(2) == 0 {
			p = gen.NudgeUlps(r, p, 2)
		}
		near = true // a centre is a vertex of the four children
	default: // cell boundary of a cell hugging a face edge
		q := gen.OnPlane(r, 3+r.Intn(6))
		cell := s2.CellFromCellID(s2.CellFromPoint(q).ID().Parent(r.Intn(31)))
		p = gen.NudgeUlps(r, cell.Vertex(r.Intn(4)), r.Intn(3))
		near = true
	}
	if n2 := p.Norm2(); !(n2 > 0.25 && n2 < 4) {
		return
	}
	det := func() any { return map[string]any{"p": vstr(p)} }
	if c.I < 3 {
		c.Sample(det())
	}
	c.Count("points.checked", 1)
	if near {
		c.Count("points.near_boundary", 1)
		c.Distinct(gen.Bits(p)...)
	}
	leaf := s2.CellFromPoint(p).ID()
	if !leaf.IsValid() || !ref.ValidCellID(uint64(leaf)) || levelOf(uint64(leaf)) != 30 {
		c.Violation("CellIDFromPoint/invalid/wrong-answer", fmt.Sprintf("CellIDFromPoint = %x is not a valid leaf cell", uint64(leaf)), det())
		return
	}
	if cp := s2.CellFromPoint(p); cp.ID() != leaf {
		c.Violation("CellFromPoint/differs/wrong-answer", "CellFromPoint(p).ID() != CellIDFromPoint(p)", det())
	}
	// the projection picks the face of the largest coordinate (ties: any of the tied faces)
	{
		a := []float64{math.Abs(p.X), math.Abs(p.Y), math.Abs(p.Z)}
		f := leaf.Face()
		ax := f % 3
		comp := []float64{p.X, p.Y, p.Z}[ax]
		mx := math.Max(a[0], math.Max(a[1], a[2]))
		if a[ax] != mx || (f < 3) != (comp > 0) {
			c.Violation("CellIDFromPoint/face/wrong-answer", fmt.Sprintf("leaf is on face %d but the largest coordinate says otherwise", f), det())
		}
	}
	for l := 30; l >= 0; l-- {
		anc := leaf.Parent(l)
		cell := s2.CellFromCellID(anc)
		if !cell.ContainsPoint(p) {
			c.Violation("ancestor-contains-point/wrong-answer", fmt.Sprintf("the level-%d ancestor %s of the point's leaf cell does not contain the point", l, anc.ToToken()), det())
			break
		}
		// independent geometric confirmation at the leaf and a few levels
		if l == 30 || l%7 == int(c.I%7) {
			if !inQuadTol(cell, p, 1e-15) {
				c.Violation("ancestor-contains-point/geometric/wrong-answer", fmt.Sprintf("the point is more than 1e-15 outside the quadrilateral of the level-%d cell %s that is said to contain it", l, anc.ToToken()), det())
				break
			}
		}
	}
	// lat/lng entry point
	ll := s2.LatLngFromPoint(p)
	q := s2.PointFromLatLng(ll)
	lid := s2.CellIDFromLatLng(ll)
	if !lid.IsValid() || levelOf(uint64(lid)) != 30 || !s2.CellFromCellID(lid).ContainsPoint(q) {
		c.Violation("CellIDFromLatLng/wrong-answer", "CellIDFromLatLng is not a valid leaf containing the lat/lng's point", det())
	}
	_ = r3.Vector{}
	_ = rand.Int
}

func minInt(a, b int) int {
	if a < b {
		return a
	}
	return b
}
