package gen

import (
	"math"
	"math/rand"
	"sort"

	"github.com/golang/geo/r3"
	"github.com/golang/geo/s1"
	"github.com/golang/geo/s2"
)

// Frame returns an orthonormal frame (x, y, z=center).
func Frame(center s2.Point) (x, y, z r3.Vector) {
	z = center.Vector.Normalize()
	x = z.Ortho()
	y = z.Cross(x).Normalize()
	return
}

// AtPolar returns the unit point at angular distance rad from the frame's
// z axis, at azimuth az.
func AtPolar(x, y, z r3.Vector, rad, az float64) s2.Point {
	s, c := math.Sincos(rad)
	sa, ca := math.Sincos(az)
	return s2.Point{Vector: z.Mul(c).Add(x.Mul(s * ca)).Add(y.Mul(s * sa)).Normalize()}
}

// LoopSpec describes a generated loop together with what is known about it
// by construction.
type LoopSpec struct {
	Vs     []s2.Point
	Center s2.Point
	RMin   float64 // every boundary point is at least RMin from Center
	RMax   float64 // and at most RMax (RMax < pi/2): star-shaped around Center
	Kind   string
}

// StarLoop returns a CCW simple loop that is star-shaped around center:
// n vertices at strictly increasing azimuths, each at a radius in [rmin,rmax].
// rmax must be < pi/2. The interior is the side containing center.
func StarLoop(r *rand.Rand, center s2.Point, n int, rmin, rmax float64) LoopSpec {
	x, y, z := Frame(center)
	az := make([]float64, n)
	// jittered azimuths, gaps between 0.3x and 1.7x the mean gap: no edge spans >= 180 degrees of azimuth for n >= 4
	step := 2 * math.Pi / float64(n)
	lo, w := 0.15, 0.7
	if n < 5 { // keep every azimuth gap below 180 degrees so that the centre stays inside
		lo, w = 0.3, 0.4
	}
	for i := range az {
		az[i] = (float64(i) + lo + w*r.Float64()) * step
	}
	sort.Float64s(az)
	vs := make([]s2.Point, n)
	for i := range vs {
		rad := rmin + (rmax-rmin)*r.Float64()
		vs[i] = AtPolar(x, y, z, rad, az[i])
	}
	// the chord between two vertices dips inside: the boundary's minimum distance from the centre is
	// at least rmin*cos(maxgap/2) (planar bound, good enough as a conservative value for rmax < pi/2)
	maxGap := 0.0
	for i := range az {
		g := az[(i+1)%n] - az[i]
		if g < 0 {
			g += 2 * math.Pi
		}
		maxGap = math.Max(maxGap, g)
	}
	inner := rmin * math.Cos(math.Min(maxGap/2, math.Pi/2-1e-3)) * 0.9
	if n < 4 {
		inner = 0
	}
	return LoopSpec{Vs: vs, Center: center, RMin: inner, RMax: rmax, Kind: "star"}
}

// RegularSpec is a regular n-gon (exact radius for all vertices).
func RegularSpec(center s2.Point, n int, radius float64, phase float64) LoopSpec {
	x, y, z := Frame(center)
	vs := make([]s2.Point, n)
	for i := range vs {
		vs[i] = AtPolar(x, y, z, radius, phase+2*math.Pi*float64(i)/float64(n))
	}
	return LoopSpec{Vs: vs, Center: center, RMin: radius * math.Cos(math.Pi/float64(n)) * 0.9, RMax: radius, Kind: "regular"}
}

// SnapToLevel moves every vertex to the centre of its level-L cell. It
// returns ok=false if that would create duplicate adjacent/any vertices.
func SnapToLevel(vs []s2.Point, level int) ([]s2.Point, bool) {
	out := make([]s2.Point, len(vs))
	seen := map[s2.CellID]bool{}
	for i, v := range vs {
		id := s2.CellFromPoint(v).ID().Parent(level)
		if seen[id] {
			return nil, false
		}
		seen[id] = true
		out[i] = id.Point()
	}
	return out, true
}

// RandCenter picks loop centres that stress the library: poles, the
// antimeridian, cube corners/edges, face centres, and uniform.
func RandCenter(r *rand.Rand) s2.Point {
	switch r.Intn(8) {
	case 0:
		return s2.PointFromCoords(0, 0, 1)
	case 1:
		return s2.PointFromCoords(0, 0, -1)
	case 2:
		return s2.PointFromLatLng(s2.LatLngFromDegrees(r.Float64()*160-80, 180))
	case 3:
		return Special(r)
	case 4:
		return Near(r, Special(r), LogUniform(r, 1e-6, 0.1))
	default:
		return Uniform(r)
	}
}

// RandLoopSpec draws a loop of a random family and size. maxN bounds the
// number of vertices.
func RandLoopSpec(r *rand.Rand, maxN int) LoopSpec {
	center := RandCenter(r)
	// sizes on both sides of the 32-vertex brute-force threshold and of one index cell
	var n int
	switch r.Intn(6) {
	case 0:
		n = 3 + r.Intn(6)
	case 1:
		n = 28 + r.Intn(10) // around the 32-vertex switch
	case 2:
		n = 33 + r.Intn(100)
	case 3:
		n = 100 + r.Intn(maxN)
	default:
		n = 4 + r.Intn(60)
	}
	if n > maxN {
		n = maxN
	}
	rmax := LogUniform(r, 1e-7, 1.5)
	if r.Intn(3) == 0 {
		rmax = 0.05 + r.Float64()*1.4
	}
	var sp LoopSpec
	switch r.Intn(4) {
	case 0:
		sp = RegularSpec(center, n, rmax, r.Float64()*2*math.Pi)
	case 1:
		sp = StarLoop(r, center, n, rmax*0.98, rmax)
	default:
		sp = StarLoop(r, center, n, rmax*(0.3+0.6*r.Float64()), rmax)
	}
	// snap to cell centres when the cells are much smaller than the loop's edges
	if r.Intn(3) == 0 {
		minEdge := math.Inf(1)
		for i := range sp.Vs {
			minEdge = math.Min(minEdge, sp.Vs[i].Distance(sp.Vs[(i+1)%len(sp.Vs)]).Radians())
		}
		lvl := s2.AvgEdgeMetric.MinLevel(minEdge / 50)
		if lvl < 3 {
			lvl = 3
		}
		if lvl <= 30 {
			lvl += r.Intn(31 - lvl + 1)
			if lvl > 30 {
				lvl = 30
			}
			if vs, ok := SnapToLevel(sp.Vs, lvl); ok {
				// snapping moves a vertex by up to a cell diagonal, which can exceed the azimuthal separation of
				// two consecutive vertices of a many-vertex loop: keep the snapped loop only if it is still
				// star-shaped (hence simple) around the centre
				if ok2, rmin, rmax := StarOK(center, vs); ok2 {
					sp.Vs, sp.RMin, sp.RMax = vs, rmin, rmax
					sp.Kind += "+snapped"
				}
			}
		}
	}
	return sp
}

// Loop builds the library loop for a spec.
func (sp LoopSpec) Loop() *s2.Loop { return s2.LoopFromPoints(append([]s2.Point(nil), sp.Vs...)) }

// Reversed returns the same boundary with the opposite orientation (the
// complement region).
func Reversed(vs []s2.Point) []s2.Point {
	out := make([]s2.Point, len(vs))
	for i, v := range vs {
		out[len(vs)-1-i] = v
	}
	return out
}

// BoundaryProbes returns points on and next to the loop boundary: every
// vertex, points on edges (rounded) and +-1..3 ulps off them, points a tiny
// distance to either side, plus the loop centre.
func BoundaryProbes(r *rand.Rand, vs []s2.Point, perLoop int) []s2.Point {
	var ps []s2.Point
	n := len(vs)
	for k := 0; k < perLoop; k++ {
		i := r.Intn(n)
		a, b := vs[i], vs[(i+1)%n]
		switch r.Intn(6) {
		case 0:
			ps = append(ps, a)
		case 1:
			ps = append(ps, NudgeUlps(r, a, 1+r.Intn(3)))
		case 2:
			ps = append(ps, OnGreatCircle(r, a, b, r.Float64(), 0))
		case 3:
			ps = append(ps, OnGreatCircle(r, a, b, r.Float64(), 1+r.Intn(3)))
		case 4:
			ps = append(ps, Near(r, OnGreatCircle(r, a, b, r.Float64(), 0), LogUniform(r, 1e-15, 1e-3)))
		default:
			ps = append(ps, s2.Point{Vector: a.Add(b.Vector).Normalize()})
		}
	}
	return ps
}

// CellProbes returns centres and vertices of cells (at several levels)
// around the given points.
func CellProbes(r *rand.Rand, around []s2.Point, k int) []s2.Point {
	var ps []s2.Point
	for i := 0; i < k; i++ {
		p := around[r.Intn(len(around))]
		c := s2.CellFromCellID(s2.CellFromPoint(p).ID().Parent(r.Intn(31)))
		if r.Intn(2) == 0 {
			ps = append(ps, c.Center())
		} else {
			ps = append(ps, c.Vertex(r.Intn(4)))
		}
	}
	return ps
}

// Angle helper.
func Deg(d float64) s1.Angle { return s1.Angle(d * math.Pi / 180) }

// StarOK reports whether vs (in order) is star-shaped around center: radii in
// (0, pi/2 - 0.01) and azimuths strictly increasing once around with every gap
// in (0, pi). Such a loop is simple and contains center. It also returns
// conservative inner and outer radii.
func StarOK(center s2.Point, vs []s2.Point) (ok bool, rmin, rmax float64) {
	x, y, z := Frame(center)
	n := len(vs)
	if n < 3 {
		return false, 0, 0
	}
	az := make([]float64, n)
	rmin, rmax = math.Inf(1), 0
	for i, v := range vs {
		rad := math.Atan2(v.Cross(z).Norm(), v.Dot(z))
		if rad <= 0 || rad > math.Pi/2-0.01 {
			return false, 0, 0
		}
		rmin, rmax = math.Min(rmin, rad), math.Max(rmax, rad)
		az[i] = math.Atan2(v.Dot(y), v.Dot(x))
	}
	total, maxGap := 0.0, 0.0
	for i := range az {
		g := az[(i+1)%n] - az[i]
		for g <= -math.Pi {
			g += 2 * math.Pi
		}
		for g > math.Pi {
			g -= 2 * math.Pi
		}
		if g <= 1e-9 || g >= math.Pi-1e-3 {
			return false, 0, 0
		}
		total += g
		maxGap = math.Max(maxGap, g)
	}
	if math.Abs(total-2*math.Pi) > 1e-6 {
		return false, 0, 0
	}
	return true, rmin * math.Cos(maxGap/2) * 0.9, rmax
}
