// Package gen holds the seeded hostile workload generators shared by the
// monitors. Everything is a pure function of the *rand.Rand it is given.
package gen

import (
	"fmt"
	"math"
	"math/rand"

	"github.com/golang/geo/r3"
	"github.com/golang/geo/s2"

	"verif/internal/ref"
)

func V(p s2.Point) ref.V { return ref.V{p.X, p.Y, p.Z} }
func P(v ref.V) s2.Point { return s2.Point{Vector: r3.Vector{X: v[0], Y: v[1], Z: v[2]}} }

func Vs(ps []s2.Point) []ref.V {
	out := make([]ref.V, len(ps))
	for i, p := range ps {
		out[i] = V(p)
	}
	return out
}

// Hex writes a point with exact hex floats (for samples and replays).
func Hex(p s2.Point) string { return fmt.Sprintf("(%x,%x,%x)", p.X, p.Y, p.Z) }

func HexAll(ps ...s2.Point) []string {
	out := make([]string, len(ps))
	for i, p := range ps {
		out[i] = Hex(p)
	}
	return out
}

// Bits returns the coordinate bit patterns (for distinct-case hashing).
func Bits(ps ...s2.Point) []uint64 {
	out := make([]uint64, 0, 3*len(ps))
	for _, p := range ps {
		out = append(out, math.Float64bits(p.X), math.Float64bits(p.Y), math.Float64bits(p.Z))
	}
	return out
}

// Uniform returns a uniformly distributed unit point.
func Uniform(r *rand.Rand) s2.Point {
	for {
		x, y, z := r.NormFloat64(), r.NormFloat64(), r.NormFloat64()
		if x*x+y*y+z*z > 1e-6 {
			return s2.Point{Vector: r3.Vector{X: x, Y: y, Z: z}.Normalize()}
		}
	}
}

// NudgeUlps moves each coordinate by a random number of ulps in [-k, k].
func NudgeUlps(r *rand.Rand, p s2.Point, k int) s2.Point {
	n := func(x float64) float64 {
		d := r.Intn(2*k+1) - k
		for ; d > 0; d-- {
			x = math.Nextafter(x, math.Inf(1))
		}
		for ; d < 0; d++ {
			x = math.Nextafter(x, math.Inf(-1))
		}
		return x
	}
	return s2.Point{Vector: r3.Vector{X: n(p.X), Y: n(p.Y), Z: n(p.Z)}}
}

// LogUniform returns a value whose logarithm is uniform in [log lo, log hi].
func LogUniform(r *rand.Rand, lo, hi float64) float64 {
	return math.Exp(math.Log(lo) + r.Float64()*(math.Log(hi)-math.Log(lo)))
}

// Near returns a unit point at (approximately) angular distance d from p in a
// random direction. For d below ~1e-16 the result is built by adding a tiny
// vector to p, which keeps it distinct from p even for d = 1e-300 when p has
// a zero or tiny coordinate.
func Near(r *rand.Rand, p s2.Point, d float64) s2.Point {
	// random tangent direction
	var t r3.Vector
	for {
		t = Uniform(r).Vector
		t = t.Sub(p.Vector.Mul(t.Dot(p.Vector)))
		if t.Norm2() > 1e-4 {
			break
		}
	}
	t = t.Normalize()
	if d > 1e-8 {
		return s2.Point{Vector: p.Vector.Mul(math.Cos(d)).Add(t.Mul(math.Sin(d))).Normalize()}
	}
	return s2.Point{Vector: p.Vector.Add(t.Mul(d))} // unit length to first order
}

// Planes whose points are exactly coplanar with the origin after
// normalisation (normalising multiplies all coordinates by one factor, so
// zero coordinates stay zero and equal coordinates stay equal).
var planeKinds = 9

// OnPlane returns a unit point lying exactly on the k-th special plane
// through the origin: z=0, y=0, x=0, x=y, x=-y, y=z, y=-z, x=z, x=-z.
func OnPlane(r *rand.Rand, k int) s2.Point {
	for {
		s, t := r.NormFloat64(), r.NormFloat64()
		if r.Intn(6) == 0 { // small-integer and power-of-two coordinates: many exact coincidences
			s = float64(r.Intn(9) - 4)
			t = float64(r.Intn(9) - 4)
		}
		if s == 0 && t == 0 {
			continue
		}
		var v r3.Vector
		switch k % planeKinds {
		case 0:
			v = r3.Vector{X: s, Y: t, Z: 0}
		case 1:
			v = r3.Vector{X: s, Y: 0, Z: t}
		case 2:
			v = r3.Vector{X: 0, Y: s, Z: t}
		case 3:
			v = r3.Vector{X: s, Y: s, Z: t}
		case 4:
			v = r3.Vector{X: s, Y: -s, Z: t}
		case 5:
			v = r3.Vector{X: t, Y: s, Z: s}
		case 6:
			v = r3.Vector{X: t, Y: s, Z: -s}
		case 7:
			v = r3.Vector{X: s, Y: t, Z: s}
		default:
			v = r3.Vector{X: s, Y: t, Z: -s}
		}
		return s2.Point{Vector: v.Normalize()}
	}
}

// Special axis / cube-corner / face-edge points.
func Special(r *rand.Rand) s2.Point {
	c := []float64{-1, 0, 1}
	for {
		v := r3.Vector{X: c[r.Intn(3)], Y: c[r.Intn(3)], Z: c[r.Intn(3)]}
		if v.Norm2() > 0 {
			return s2.Point{Vector: v.Normalize()}
		}
	}
}

// Denormalize replaces every zero (or denormal-scale) coordinate of p by a value k*2^-1074*2^e with k in
// 1..8 and e in 0..50 and random sign, each with probability 2/3; the other coordinates keep their bits.
func Denormalize(r *rand.Rand, p s2.Point) s2.Point {
	co := []*float64{&p.X, &p.Y, &p.Z}
	for _, x := range co {
		if math.Abs(*x) < 1e-290 && r.Intn(3) != 0 {
			v := math.Ldexp(float64(1+r.Intn(8)), -1074+r.Intn(51))
			if r.Intn(2) == 0 {
				v = -v
			}
			*x = v
		}
	}
	return p
}

// Pool builds a pool of n points rich in exact and near degeneracies: points
// on one special plane, duplicates, antipodes, ulp-neighbours, tiny
// separations, plus a few uniform ones.
func Pool(r *rand.Rand, n int) []s2.Point {
	plane := r.Intn(planeKinds)
	ps := make([]s2.Point, 0, n)
	for len(ps) < n {
		var p s2.Point
		switch k := r.Intn(12); {
		case k < 4:
			p = OnPlane(r, plane)
		case k == 4:
			p = Special(r)
		case k == 5:
			p = Uniform(r)
		case k == 6 && len(ps) > 0:
			p = ps[r.Intn(len(ps))] // duplicate
		case k == 7 && len(ps) > 0:
			q := ps[r.Intn(len(ps))]
			p = s2.Point{Vector: q.Mul(-1)} // antipode
		case k == 8 && len(ps) > 0:
			p = NudgeUlps(r, ps[r.Intn(len(ps))], 1+r.Intn(3))
		case k == 9 && len(ps) > 0:
			p = Near(r, ps[r.Intn(len(ps))], LogUniform(r, 1e-300, 1e-3))
		case k == 10 && len(ps) > 1:
			// on the great circle of two pool members (rounded), then maybe nudged
			a, b := ps[r.Intn(len(ps))], ps[r.Intn(len(ps))]
			t := r.Float64()*3 - 1
			v := a.Mul(1 - t).Add(b.Mul(t))
			if v.Norm2() < 1e-20 {
				continue
			}
			p = s2.Point{Vector: v.Normalize()}
			if r.Intn(2) == 0 {
				p = NudgeUlps(r, p, 2)
			}
		case k == 11:
			// zero coordinates of a special / pool point become denormal-scale values: exact determinants of
			// such points need more than 2048 bits (terms of size 1 cancel down to 2^-2148)
			if len(ps) > 0 && r.Intn(2) == 0 {
				p = Denormalize(r, ps[r.Intn(len(ps))])
			} else {
				p = Denormalize(r, Special(r))
			}
		default:
			p = OnPlane(r, plane)
		}
		// unit length as the library defines it (|v|^2 within 5 * 2^-52 of 1): nudges of nudged pool members
		// can drift further than that, and the predicates' error bounds are stated for unit vectors only
		if n2 := p.Norm2(); !(math.Abs(n2-1) <= 5*2.220446049250313e-16) {
			continue
		}
		ps = append(ps, p)
	}
	return ps
}

// OnGreatCircle returns a point (rounded) on the great circle through a and b
// at parameter t (t in [0,1] is inside the edge), nudged by up to k ulps.
func OnGreatCircle(r *rand.Rand, a, b s2.Point, t float64, k int) s2.Point {
	ang := a.Angle(b.Vector).Radians()
	n := a.Cross(b.Vector)
	if n.Norm2() == 0 || ang == 0 {
		return a
	}
	// rotate a towards b by t*ang
	ortho := n.Cross(a.Vector).Normalize()
	v := a.Mul(math.Cos(t * ang)).Add(ortho.Mul(math.Sin(t * ang)))
	p := s2.Point{Vector: v.Normalize()}
	if k > 0 {
		p = NudgeUlps(r, p, k)
	}
	return p
}
