package gen

import (
	"math"
	"math/rand"

	"github.com/golang/geo/s2"

	"verif/internal/ref"
)

// RefDir is the library's fixed reference direction (s2.Ortho), the
// definition used by the vertex rule of the reference model.
func RefDir(v ref.V) ref.V { return V(s2.Ortho(P(v))) }

// Obj is one generated shape with its brute-force containment model.
type Obj struct {
	Shape    s2.Shape
	Kind     string
	Dim      int
	Rings    []*ref.LoopModel // for dim 2: contained iff an odd number of rings enclose the point
	Vertices []s2.Point
	Loops    [][]s2.Point // the rings themselves (dim 2)
}

func (o *Obj) ContainsInterior(p s2.Point) bool {
	k := 0
	for _, m := range o.Rings {
		if m.Contains(V(p)) {
			k++
		}
	}
	return k%2 == 1
}

func (o *Obj) IsVertex(p s2.Point) bool {
	for _, v := range o.Vertices {
		if v == p {
			return true
		}
	}
	return false
}

// model answer under a vertex model
func (o *Obj) Contains(p s2.Point, model s2.VertexModel) bool {
	if o.Dim < 2 {
		return model == s2.VertexModelClosed && o.IsVertex(p)
	}
	if o.IsVertex(p) {
		switch model {
		case s2.VertexModelOpen:
			return false
		case s2.VertexModelClosed:
			return true
		}
	}
	return o.ContainsInterior(p)
}

func rings(r *rand.Rand, ctr s2.Point, rad float64, depth, maxN int) ([][]s2.Point, []*ref.LoopModel) {
	var ls [][]s2.Point
	var ms []*ref.LoopModel
	for d := 0; d < depth; d++ {
		n := 3 + r.Intn(12)
		if r.Intn(3) == 0 {
			n = 12 + r.Intn(maxN)
		}
		sp := StarLoop(r, ctr, n, rad*0.8, rad)
		ls = append(ls, sp.Vs)
		ms = append(ms, ref.NewLoopModel(Vs(sp.Vs), V(s2.OriginPoint()), RefDir))
		rad = sp.RMin * 0.8
		if rad < 1e-9 {
			break
		}
	}
	return ls, ms
}

func walk(r *rand.Rand, start s2.Point, n int, step float64) []s2.Point {
	vs := []s2.Point{start}
	for len(vs) < n {
		nx := Near(r, vs[len(vs)-1], step*(0.2+r.Float64()))
		if r.Intn(15) == 0 && len(vs) > 1 {
			nx = vs[len(vs)-1] // degenerate edge
		}
		vs = append(vs, nx)
	}
	return vs
}

// ArealObj wraps rings (each a simple CCW loop; a point is inside iff an odd number of rings enclose it)
// as one of the four areal shape types.
func ArealObj(r *rand.Rand, ls [][]s2.Point) *Obj {
	o := &Obj{Dim: 2, Loops: ls}
	for _, l := range ls {
		o.Rings = append(o.Rings, ref.NewLoopModel(Vs(l), V(s2.OriginPoint()), RefDir))
		o.Vertices = append(o.Vertices, l...)
	}
	mkPoly := func() *s2.Polygon {
		var x []*s2.Loop
		for _, j := range r.Perm(len(ls)) {
			x = append(x, s2.LoopFromPoints(append([]s2.Point(nil), ls[j]...)))
		}
		return s2.PolygonFromLoops(x)
	}
	k := r.Intn(4)
	switch {
	case k == 0 && len(ls) == 1:
		o.Shape, o.Kind = s2.LoopFromPoints(append([]s2.Point(nil), ls[0]...)), "Loop"
	case k == 1 && len(ls) == 1:
		o.Shape, o.Kind = s2.LaxLoopFromPoints(append([]s2.Point(nil), ls[0]...)), "LaxLoop"
	case k <= 2:
		o.Shape, o.Kind = mkPoly(), "Polygon"
	default:
		o.Shape, o.Kind = s2.LaxPolygonFromPolygon(mkPoly()), "LaxPolygon"
	}
	return o
}

// Islands returns k disjoint small star-shaped loops on a circle of the given radius around ctr.
func Islands(r *rand.Rand, ctr s2.Point, radius float64, k int) [][]s2.Point {
	x, y, z := Frame(ctr)
	var ls [][]s2.Point
	ir := radius * math.Sin(math.Pi/float64(k)) * 0.7
	for j := 0; j < k; j++ {
		c := AtPolar(x, y, z, radius, 2*math.Pi*float64(j)/float64(k))
		ls = append(ls, StarLoop(r, c, 3+r.Intn(6), ir*0.6, ir).Vs)
	}
	return ls
}

// VerticesAtIndexCellCentres moves up to three vertices of a star-shaped loop onto the centre of the index
// cell that holds them (as long as the loop stays star-shaped), so that the segment "cell centre -> query
// point" used by indexed containment starts exactly at a vertex. It returns the index cells whose centre
// is a vertex in the final loop's own index.
func VerticesAtIndexCellCentres(r *rand.Rand, sp LoopSpec) (LoopSpec, []s2.CellID) {
	for round := 0; round < 3; round++ {
		idx := s2.NewShapeIndex()
		idx.Add(s2.LaxLoopFromPoints(append([]s2.Point(nil), sp.Vs...)))
		idx.Build()
		it := idx.Iterator()
		i := r.Intn(len(sp.Vs))
		if !it.LocatePoint(sp.Vs[i]) {
			continue
		}
		cand := append([]s2.Point(nil), sp.Vs...)
		cand[i] = it.CellID().Point()
		if ok, rmin, rmax := StarOK(sp.Center, cand); ok {
			sp.Vs, sp.RMin, sp.RMax = cand, rmin, rmax
		}
	}
	idx := s2.NewShapeIndex()
	idx.Add(s2.LaxLoopFromPoints(append([]s2.Point(nil), sp.Vs...)))
	idx.Build()
	it := idx.Iterator()
	var cells []s2.CellID
	for _, v := range sp.Vs {
		if it.LocatePoint(v) && it.CellID().Point() == v {
			cells = append(cells, it.CellID())
		}
	}
	return sp, cells
}

func MakeObj(r *rand.Rand, ctr s2.Point, scale float64, maxE int) *Obj {
	o := &Obj{}
	switch k := r.Intn(9); k {
	case 0, 1, 2, 3, 4: // areal shapes from rings
		depth := 1 + r.Intn(3)
		maxN := 20
		if r.Intn(4) == 0 {
			maxN = maxE / 4
		}
		ls, ms := rings(r, ctr, scale, depth, maxN)
		o.Rings, o.Dim, o.Loops = ms, 2, ls
		for _, l := range ls {
			o.Vertices = append(o.Vertices, l...)
		}
		mkPoly := func() *s2.Polygon {
			var x []*s2.Loop
			for _, j := range r.Perm(len(ls)) {
				x = append(x, s2.LoopFromPoints(append([]s2.Point(nil), ls[j]...)))
			}
			return s2.PolygonFromLoops(x)
		}
		switch {
		case k == 0 && len(ls) == 1:
			o.Shape, o.Kind = s2.LoopFromPoints(append([]s2.Point(nil), ls[0]...)), "Loop"
		case k == 1 && len(ls) == 1:
			o.Shape, o.Kind = s2.LaxLoopFromPoints(append([]s2.Point(nil), ls[0]...)), "LaxLoop"
		case k <= 2:
			o.Shape, o.Kind = mkPoly(), "Polygon"
		default:
			o.Shape, o.Kind = s2.LaxPolygonFromPolygon(mkPoly()), "LaxPolygon"
		}
	case 5, 6:
		n := 2 + r.Intn(20)
		if r.Intn(4) == 0 {
			n = 2 + r.Intn(maxE/4)
		}
		vs := walk(r, Near(r, ctr, scale*r.Float64()), n, scale/4)
		o.Vertices, o.Dim = vs, 1
		if k == 5 {
			pl := s2.Polyline(append([]s2.Point(nil), vs...))
			o.Shape, o.Kind = &pl, "Polyline"
		} else {
			o.Shape, o.Kind = s2.LaxPolylineFromPoints(append([]s2.Point(nil), vs...)), "LaxPolyline"
		}
	case 7:
		n := 1 + r.Intn(10)
		var vs []s2.Point
		for i := 0; i < n; i++ {
			vs = append(vs, Near(r, ctr, scale*r.Float64()))
		}
		pv := s2.PointVector(append([]s2.Point(nil), vs...))
		o.Shape, o.Kind, o.Vertices, o.Dim = &pv, "PointVector", vs, 0
	default: // a long polyline across cube faces
		a := Near(r, ctr, scale)
		vs := []s2.Point{a, Uniform(r), Uniform(r)}
		o.Vertices, o.Dim = vs, 1
		o.Shape, o.Kind = s2.LaxPolylineFromPoints(append([]s2.Point(nil), vs...)), "LaxPolyline(long)"
	}
	return o
}
