package gen

import (
	"math/rand"

	"github.com/golang/geo/s2"
)

// RandCellID returns a valid cell id at the given level (random face/position).
func RandCellID(r *rand.Rand, level int) s2.CellID {
	face := r.Intn(6)
	pos := r.Uint64() & ((uint64(1) << 60) - 1)
	return s2.CellIDFromFacePosLevel(face, pos, level)
}

// CellMultiset builds a hostile multiset of cell ids: clustered in a few
// ancestors (so that cells nest, overlap and complete sibling groups),
// duplicates, whole faces, complete sibling groups at several levels, cells
// at the ends of faces and of the curve.
func CellMultiset(r *rand.Rand, maxN int) []s2.CellID {
	n := r.Intn(maxN + 1)
	var out []s2.CellID
	// a few anchor cells; most members are descendants/neighbours of anchors
	var anchors []s2.CellID
	for k := 0; k < 1+r.Intn(3); k++ {
		anchors = append(anchors, RandCellID(r, r.Intn(12)))
	}
	for len(out) < n {
		switch k := r.Intn(14); {
		case k == 0:
			out = append(out, s2.CellIDFromFace(r.Intn(6)))
		case k == 1 && len(out) > 0:
			out = append(out, out[r.Intn(len(out))]) // duplicate
		case k == 2 && len(out) > 0: // all four children of a member (complete sibling group)
			p := out[r.Intn(len(out))]
			if !p.IsLeaf() {
				ch := p.Children()
				out = append(out, ch[0], ch[1], ch[2], ch[3])
			}
		case k == 3 && len(out) > 0: // three of four siblings + (maybe) the fourth's children
			p := out[r.Intn(len(out))]
			if p.Level() < 29 {
				ch := p.Children()
				skip := r.Intn(4)
				for i := 0; i < 4; i++ {
					if i != skip {
						out = append(out, ch[i])
					} else if r.Intn(2) == 0 {
						gc := ch[i].Children()
						out = append(out, gc[0], gc[1], gc[2], gc[3])
					}
				}
			}
		case k == 4 && len(out) > 0: // ancestor of a member
			p := out[r.Intn(len(out))]
			if p.Level() > 0 {
				out = append(out, p.Parent(r.Intn(p.Level())))
			}
		case k == 5: // ends of a face / of the curve, at a deep level
			f := s2.CellIDFromFace(r.Intn(6))
			lvl := r.Intn(31)
			if r.Intn(2) == 0 {
				out = append(out, f.ChildBeginAtLevel(lvl))
			} else {
				out = append(out, f.ChildEndAtLevel(lvl).Prev())
			}
		case k == 6 && len(out) > 0: // curve neighbour of a member
			p := out[r.Intn(len(out))]
			if r.Intn(2) == 0 {
				out = append(out, p.NextWrap())
			} else {
				out = append(out, p.PrevWrap())
			}
		case k < 11: // descendant of an anchor
			a := anchors[r.Intn(len(anchors))]
			lvl := a.Level() + r.Intn(6)
			if lvl > 30 {
				lvl = 30
			}
			c := a
			for c.Level() < lvl {
				c = c.Children()[r.Intn(4)]
			}
			out = append(out, c)
		default:
			out = append(out, RandCellID(r, r.Intn(31)))
		}
	}
	r.Shuffle(len(out), func(i, j int) { out[i], out[j] = out[j], out[i] })
	return out
}
