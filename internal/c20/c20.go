// Package c20 monitors C20: approximation operators stay within the tolerance
// they declare (edge tessellation, projection round trips, polyline
// subsampling, point snapping).
package c20

import (
	"fmt"
	"math"
	"math/rand"

	"github.com/golang/geo/r2"
	"github.com/golang/geo/r3"
	"github.com/golang/geo/s1"
	"github.com/golang/geo/s2"

	"verif/internal/gen"
	"verif/internal/mon"
	"verif/internal/ref"
)

const eps = 2.220446049250313e-16

func Run(m *mon.M) {
	m.Rule = "edges 1e-6 rad .. 179 degrees (geodesic) and planar edges spanning up to half the wrap distance, PlateCarree and Mercator projections at scales 1e-3 .. 1e6 (incl. 180 and pi), tolerances 1e-13 .. 1 rad (bounded below by length^2/1e8 so that a chain has at most ~10^4 vertices), equator and antimeridian crossings, poles (PlateCarree) / up to 89.5 degrees (Mercator); polylines of 2..3000 vertices: random walks, noisy straight tracks, out-and-back tracks retreating in steps below the tolerance, zigzags, duplicates, edges beyond 90 degrees; snap levels 0..30 and exponents 0..10 on uniform points, cell corners, grid half-way points and poles. A case is non-trivial and distinct when new AND (the chain has more than 2 vertices, or the polyline drops a vertex, or the point is not already a grid site)"
	m.Assumptions = []string{"distance of a sampled point of the output chain to a geodesic input edge: library DistanceFromSegment (monitored by C17), every excess re-measured with the 320-bit reference before it is reported", "distance to a projected (curved) input edge: minimum over the edge parameter found by bracketing + golden-section search; any parameter gives an upper bound on the true distance, an excess is re-measured with a 4000-point global scan + refinement before it is reported", "rounding allowances: 1e-6 relative + 2e-15 rad absolute on every tolerance comparison, plus 32 eps/cos(lat) for Mercator chains (conditioning of its inverse); projection round trip 1e-14 rad (PlateCarree) and 1e-14 + 64 eps/cos(lat) (Mercator, whose inverse is ill-conditioned towards the poles)"}
	m.Require("tess.projected.chains", 3000)
	m.Require("tess.unprojected.chains", 3000)
	m.Require("tess.points_measured", 200000)
	m.Require("tess.equator_crossing", 500)
	m.Require("tess.antimeridian_crossing", 300)
	m.Require("roundtrip.checked", 20000)
	m.Require("subsample.checked", 3000)
	m.Require("subsample.dropped_vertices", 50000)
	m.Require("snap.cellid.checked", 20000)
	m.Require("snap.latlng.checked", 20000)
	m.Stream("tess.projected", m.N(6000, 300000), projectedCase)
	m.Stream("tess.unprojected", m.N(6000, 300000), unprojectedCase)
	m.Stream("roundtrip", m.N(40000, 2000000), roundtripCase)
	m.Stream("subsample", m.N(6000, 300000), subsampleCase)
	m.Stream("snap", m.N(60000, 3000000), snapCase)
}

type projT struct {
	p     s2.Projection
	name  string
	scale float64
	merc  bool
}

func randProj(r *rand.Rand) projT {
	scale := []float64{180, math.Pi, 1, 1e-3, 1e6, 0}[r.Intn(6)]
	if scale == 0 {
		scale = gen.LogUniform(r, 1e-3, 1e6)
	}
	if r.Intn(2) == 0 {
		return projT{s2.NewPlateCarreeProjection(scale), "PlateCarree", scale, false}
	}
	return projT{s2.NewMercatorProjection(scale), "Mercator", scale, true}
}

func lat(p s2.Point) float64 { return s2.LatLngFromPoint(p).Lat.Radians() }

func distRef(x, a, b s2.Point) float64 {
	return ref.AngleFromChord2(ref.Fl(ref.DistChord2ToSegment(ref.HV(gen.V(x)), ref.HV(gen.V(a)), ref.HV(gen.V(b)))))
}

func bucket(ratio float64) string {
	switch {
	case ratio <= 1.2:
		return "within-1.2x"
	case ratio <= 2:
		return "within-2x"
	}
	return "gross"
}

func allow(tol float64) float64 { return tol*(1+1e-6) + 2e-15 }

// mercSlack: the inverse Mercator projection is ill-conditioned towards the poles (an ulp of the planar y
// moves the point by eps/cos(lat)), so both the chain and the reference curve carry that much noise.
func mercSlack(pj projT, x s2.Point) float64 {
	if !pj.merc {
		return 0
	}
	return 32 * eps / math.Max(math.Cos(lat(x)), 1e-6)
}

func randTol(r *rand.Rand, length float64) float64 {
	lo := math.Max(1e-13, length*length/1e8)
	if r.Intn(60) == 0 {
		// a deep subdivision now and then: chains of up to a few 10^5 vertices (more than 2^15 pieces per edge)
		return math.Max(1e-13, length*length/3e11)
	}
	if lo >= 1 {
		return 1
	}
	if r.Intn(12) == 0 {
		return lo
	}
	return gen.LogUniform(r, lo, 1)
}

func projectedCase(c *mon.Case) {
	r := c.R
	pj := randProj(r)
	var a s2.Point
	switch r.Intn(6) {
	case 0:
		a = gen.Special(r)
	case 1: // near the equator
		a = s2.PointFromLatLng(s2.LatLngFromDegrees(r.NormFloat64()*20, r.Float64()*360-180))
	case 2: // near the antimeridian
		a = s2.PointFromLatLng(s2.LatLngFromDegrees(r.Float64()*170-85, 180-r.Float64()*5))
	default:
		a = gen.Uniform(r)
	}
	length := gen.LogUniform(r, 1e-6, 3.1)
	if r.Intn(3) == 0 {
		length = 0.1 + r.Float64()*3
	}
	b := gen.Near(r, a, length)
	if a == b || ref.Antipodal(gen.V(a), gen.V(b)) || a.Angle(b.Vector).Radians() > math.Pi-0.01 {
		return
	}
	if pj.merc {
		for k := 0; k <= 64; k++ {
			if math.Abs(lat(s2.Interpolate(float64(k)/64, a, b))) > 89.5*math.Pi/180 {
				return
			}
		}
	}
	tol := randTol(r, a.Distance(b).Radians())
	tess := s2.NewEdgeTessellator(pj.p, s1.Angle(tol))
	var seed []r2.Point
	if r.Intn(4) == 0 { // continue an existing chain whose last vertex is a's image in another world copy
		pa := pj.p.Project(a)
		pa.X += float64(r.Intn(5)-2) * pj.p.WrapDistance().X
		seed = []r2.Point{pa}
	}
	out := tess.AppendProjected(a, b, seed)
	c.Count("tess.projected.chains", 1)
	la, lb := lat(a), lat(b)
	if la*lb < 0 {
		c.Count("tess.equator_crossing", 1)
	}
	det := func(extra map[string]any) any {
		d := map[string]any{"projection": pj.name, "scale": pj.scale, "tolerance": tol, "a": gen.Hex(a), "b": gen.Hex(b), "vertices": len(out), "seeded": len(seed) > 0}
		for k, v := range extra {
			d[k] = v
		}
		return d
	}
	if c.I < 2 {
		c.Sample(det(nil))
	}
	if len(out) > 2 {
		c.Distinct(gen.Bits(a, b)...)
		c.Distinct(math.Float64bits(tol))
	}
	if len(out) < 2 {
		c.Violation("AppendProjected/fewer-than-two-vertices/wrong-answer", "AppendProjected returned fewer than two vertices", det(nil))
		return
	}
	c.Max("tess.max_chain_vertices", float64(len(out)))
	// endpoints
	if e := pj.p.Unproject(out[0]).Distance(a).Radians(); e > 1e-14+64*eps/math.Max(math.Cos(la), 1e-3) {
		c.Violation("AppendProjected/first-vertex-not-a/"+mon.Severity(e), fmt.Sprintf("first vertex of the projected chain unprojects %.3g rad away from A", e), det(nil))
	}
	if e := pj.p.Unproject(out[len(out)-1]).Distance(b).Radians(); e > 1e-14+64*eps/math.Max(math.Cos(lb), 1e-3) {
		c.Violation("AppendProjected/last-vertex-not-b/"+mon.Severity(e), fmt.Sprintf("last vertex of the projected chain unprojects %.3g rad away from B", e), det(nil))
	}
	half := 0.5 * pj.p.WrapDistance().X
	crossed := false
	segs := pickSegments(r, len(out)-1)
	for _, i := range segs {
		p, q := out[i], out[i+1]
		if math.Abs(q.X-p.X) > half*(1+1e-12) {
			c.Violation("AppendProjected/vertex-not-wrapped-to-previous/wrong-answer", fmt.Sprintf("consecutive chain vertices are %.6g apart in x, more than half the wrap distance %.6g", math.Abs(q.X-p.X), 2*half), det(map[string]any{"segment": i}))
			return
		}
		if math.Floor((p.X+half)/(2*half)) != math.Floor((q.X+half)/(2*half)) {
			crossed = true
		}
		for _, t := range []float64{0.31215691082248312, 0.5, 0.68784308917751688, r.Float64(), r.Float64()} {
			x := pj.p.Unproject(pj.p.Interpolate(t, p, q))
			d := s2.DistanceFromSegment(x, a, b).Radians()
			c.Count("tess.points_measured", 1)
			c.Max("tess.projected.error_over_tolerance."+pj.name, d/tol)
			if d > allow(tol)+mercSlack(pj, x) {
				if d = distRef(x, a, b); d > allow(tol)+mercSlack(pj, x) {
					c.Violation("AppendProjected/"+pj.name+"/exceeds-tolerance/"+bucket(d/tol), fmt.Sprintf("a point of the projected chain (segment %d, fraction %.4f) is %.6g rad from the geodesic edge AB: %.4f x the tolerance %.6g", i, t, d, d/tol, tol), det(map[string]any{"segment": i, "fraction": t, "distance": d}))
					return
				}
			}
		}
	}
	if crossed {
		c.Count("tess.antimeridian_crossing", 1)
	}
}

func pickSegments(r *rand.Rand, n int) []int {
	if n <= 300 {
		s := make([]int, n)
		for i := range s {
			s[i] = i
		}
		return s
	}
	s := []int{0, 1, n - 2, n - 1}
	for k := 0; k < 300; k++ {
		s = append(s, r.Intn(n))
	}
	return s
}

// curveDist returns (an upper bound on, and after refinement a close estimate of) the distance from x to the
// curve s -> Unproject(Interpolate(s, pa, pb)), s in [lo, hi].
func curveDist(pj projT, pa, pb r2.Point, x s2.Point, lo, hi float64) (float64, float64) {
	f := func(s float64) float64 {
		q := pj.p.Unproject(pj.p.Interpolate(s, pa, pb))
		return s2.ChordAngleBetweenPoints(x, q).Angle().Radians()
	}
	const phi = 0.6180339887498949
	a, b := lo, hi
	c1, c2 := b-phi*(b-a), a+phi*(b-a)
	f1, f2 := f(c1), f(c2)
	for it := 0; it < 80 && b-a > 1e-16; it++ {
		if f1 < f2 {
			b, c2, f2 = c2, c1, f1
			c1 = b - phi*(b-a)
			f1 = f(c1)
		} else {
			a, c1, f1 = c1, c2, f2
			c2 = a + phi*(b-a)
			f2 = f(c2)
		}
	}
	s := 0.5 * (a + b)
	best := f(s)
	for _, e := range []float64{lo, hi} {
		if v := f(e); v < best {
			best, s = v, e
		}
	}
	return best, s
}

func curveDistGlobal(pj projT, pa, pb r2.Point, x s2.Point) float64 {
	const N = 4000
	best, bs := math.Inf(1), 0.0
	for k := 0; k <= N; k++ {
		s := float64(k) / N
		q := pj.p.Unproject(pj.p.Interpolate(s, pa, pb))
		if d := s2.ChordAngleBetweenPoints(x, q).Angle().Radians(); d < best {
			best, bs = d, s
		}
	}
	d, _ := curveDist(pj, pa, pb, x, math.Max(0, bs-1.0/N), math.Min(1, bs+1.0/N))
	return math.Min(d, best)
}

func unprojectedCase(c *mon.Case) {
	r := c.R
	pj := randProj(r)
	maxLat := 90.0
	if pj.merc {
		maxLat = 89.5
	}
	rlat := func() float64 {
		switch r.Intn(5) {
		case 0:
			return r.NormFloat64() * 10
		case 1:
			return (maxLat - gen.LogUniform(r, 1e-6, 10)) * float64(2*r.Intn(2)-1)
		}
		return (2*r.Float64() - 1) * maxLat
	}
	clampLat := func(x float64) float64 { return math.Max(-maxLat, math.Min(maxLat, x)) }
	lat1 := clampLat(rlat())
	lat2 := clampLat(rlat())
	if r.Intn(3) == 0 {
		lat2 = clampLat(lat1 + r.NormFloat64()*gen.LogUniform(r, 1e-5, 30))
	}
	lng1 := r.Float64()*360 - 180
	if r.Intn(4) == 0 {
		lng1 = 180 - r.Float64()*3
	}
	dl := (2*r.Float64() - 1) * 179.5
	if r.Intn(3) == 0 {
		dl = r.NormFloat64() * gen.LogUniform(r, 1e-5, 30)
		dl = math.Max(-179.5, math.Min(179.5, dl))
	}
	pa := pj.p.FromLatLng(s2.LatLngFromDegrees(lat1, lng1))
	pb := pj.p.FromLatLng(s2.LatLngFromDegrees(lat2, 0))
	pb.X = pa.X + dl/180*pj.scale
	if r.Intn(4) == 0 { // another copy of the world
		k := float64(r.Intn(5)-2) * pj.p.WrapDistance().X
		pa.X += k
		pb.X += k
	}
	if pa == pb {
		return
	}
	a, b := pj.p.Unproject(pa), pj.p.Unproject(pb)
	// spherical size of the planar edge
	length := 0.0
	prev := a
	for k := 1; k <= 16; k++ {
		q := pj.p.Unproject(pj.p.Interpolate(float64(k)/16, pa, pb))
		length += prev.Distance(q).Radians()
		prev = q
	}
	tol := randTol(r, length)
	tess := s2.NewEdgeTessellator(pj.p, s1.Angle(tol))
	out := tess.AppendUnprojected(pa, pb, nil)
	c.Count("tess.unprojected.chains", 1)
	if lat1*lat2 < 0 {
		c.Count("tess.equator_crossing", 1)
	}
	if math.Abs(lng1+dl) > 180 {
		c.Count("tess.antimeridian_crossing", 1)
	}
	det := func(extra map[string]any) any {
		d := map[string]any{"projection": pj.name, "scale": pj.scale, "tolerance": tol, "pa": fmt.Sprintf("(%x,%x)", pa.X, pa.Y), "pb": fmt.Sprintf("(%x,%x)", pb.X, pb.Y), "lat_lng_deg": []float64{lat1, lng1, lat2, lng1 + dl}, "vertices": len(out)}
		for k, v := range extra {
			d[k] = v
		}
		return d
	}
	if c.I < 2 {
		c.Sample(det(nil))
	}
	if len(out) > 2 {
		c.Distinct(math.Float64bits(pa.X), math.Float64bits(pa.Y), math.Float64bits(pb.X), math.Float64bits(pb.Y), math.Float64bits(tol))
	}
	if len(out) < 2 {
		c.Violation("AppendUnprojected/fewer-than-two-vertices/wrong-answer", "AppendUnprojected returned fewer than two vertices", det(nil))
		return
	}
	c.Max("tess.max_chain_vertices", float64(len(out)))
	if out[0] != a || out[len(out)-1] != b {
		c.Violation("AppendUnprojected/endpoints/wrong-answer", "the chain does not start at Unproject(pa) and end at Unproject(pb)", det(nil))
	}
	n := len(out) - 1
	for _, i := range pickSegments(r, n) {
		u, v := out[i], out[i+1]
		if u == v {
			continue
		}
		if ref.Antipodal(gen.V(u), gen.V(v)) {
			c.Violation("AppendUnprojected/antipodal-neighbours/wrong-answer", "two consecutive chain vertices are antipodal", det(map[string]any{"segment": i}))
			return
		}
		// the chain vertices are at the dyadic parameters of a depth-first bisection, so vertex i sits in
		// [i/n - w, i/n + w] only for uniform subdivision; bracket generously and fall back to a global scan
		for _, t := range []float64{0.31215691082248312, 0.5, 0.68784308917751688, r.Float64()} {
			x := s2.Interpolate(t, u, v)
			c.Count("tess.points_measured", 1)
			// bracket from the planar image of x
			px := pj.p.WrapDestination(pa, pj.p.Project(x))
			dx, dy := pb.X-pa.X, pb.Y-pa.Y
			s0 := ((px.X-pa.X)*dx + (px.Y-pa.Y)*dy) / (dx*dx + dy*dy)
			s0 = math.Max(0, math.Min(1, s0))
			w := 0.02
			d, _ := curveDist(pj, pa, pb, x, math.Max(0, s0-w), math.Min(1, s0+w))
			if d > allow(tol)+mercSlack(pj, x) {
				d = math.Min(d, curveDistGlobal(pj, pa, pb, x))
			}
			c.Max("tess.unprojected.error_over_tolerance."+pj.name, (d-mercSlack(pj, x))/tol)
			if d > allow(tol)+mercSlack(pj, x) {
				c.Violation("AppendUnprojected/"+pj.name+"/exceeds-tolerance/"+bucket(d/tol), fmt.Sprintf("a point of the geodesic chain (segment %d, fraction %.4f) is %.6g rad from the projected input edge: %.4f x the tolerance %.6g", i, t, d, d/tol, tol), det(map[string]any{"segment": i, "fraction": t, "distance": d}))
				return
			}
		}
	}
}

func roundtripCase(c *mon.Case) {
	r := c.R
	pj := randProj(r)
	var p s2.Point
	switch r.Intn(5) {
	case 0:
		p = gen.Special(r)
	case 1: // near a pole
		p = gen.Near(r, s2.Point{Vector: r3.Vector{Z: float64(2*r.Intn(2) - 1)}}, gen.LogUniform(r, 1e-9, 0.2))
	case 2: // near the antimeridian
		p = s2.PointFromLatLng(s2.LatLngFromDegrees(r.Float64()*178-89, 180*float64(2*r.Intn(2)-1)*(1-gen.LogUniform(r, 1e-17, 1e-2))))
	default:
		p = gen.Uniform(r)
	}
	la := lat(p)
	if pj.merc && math.Abs(la) > 89.999*math.Pi/180 {
		return
	}
	c.Count("roundtrip.checked", 1)
	c.Distinct(gen.Bits(p)...)
	pp := pj.p.Project(p)
	q := pj.p.Unproject(pp)
	e := p.Distance(q).Radians()
	tol := 1e-14
	if pj.merc {
		tol += 64 * eps / math.Cos(la)
		c.Max("roundtrip.Mercator.err_times_coslat_over_eps", e*math.Cos(la)/eps)
	} else {
		c.Max("roundtrip.PlateCarree.err_over_eps", e/eps)
	}
	det := func() any {
		return map[string]any{"projection": pj.name, "scale": pj.scale, "point": gen.Hex(p), "projected": fmt.Sprintf("(%.17g,%.17g)", pp.X, pp.Y)}
	}
	if c.I < 2 {
		c.Sample(det())
	}
	if !(e <= tol) {
		c.Violation("Projection/"+pj.name+"/unproject-of-project/"+mon.Severity(e), fmt.Sprintf("%s: Unproject(Project(p)) is %.3g rad from p (allowance %.3g)", pj.name, e, tol), det())
	}
	// the planar point is within the projection's range
	if math.Abs(pp.X) > pj.scale*(1+4*eps) || (!pj.merc && math.Abs(pp.Y) > pj.scale/2*(1+4*eps)) || math.IsNaN(pp.Y) || math.IsNaN(pp.X) {
		c.Violation("Projection/"+pj.name+"/out-of-range/wrong-answer", fmt.Sprintf("%s: Project(p) = (%g, %g) is outside the projection's range for scale %g", pj.name, pp.X, pp.Y, pj.scale), det())
	}
	// FromLatLng / ToLatLng
	ll := s2.LatLngFromPoint(p)
	l2 := pj.p.ToLatLng(pj.p.FromLatLng(ll))
	if e := ll.Distance(l2).Radians(); !(e <= tol) {
		c.Violation("Projection/"+pj.name+"/tolatlng-of-fromlatlng/"+mon.Severity(e), fmt.Sprintf("%s: ToLatLng(FromLatLng(ll)) is %.3g rad from ll", pj.name, e), det())
	}
	// WrapDestination: b moves by a whole number of wraps to within half a wrap of a
	wrap := pj.p.WrapDistance().X
	a2 := r2.Point{X: (2*r.Float64() - 1) * 3 * pj.scale, Y: pp.Y}
	b2 := r2.Point{X: pp.X + float64(r.Intn(7)-3)*wrap, Y: pp.Y}
	w := pj.p.WrapDestination(a2, b2)
	k := (w.X - b2.X) / wrap
	if math.Abs(w.X-a2.X) > 0.5*wrap*(1+1e-12) || math.Abs(k-math.Round(k)) > 1e-9 || w.Y != b2.Y {
		c.Violation("Projection/"+pj.name+"/wrap-destination/wrong-answer", fmt.Sprintf("WrapDestination(a=%g, b=%g) = %g with wrap distance %g", a2.X, b2.X, w.X, wrap), det())
	}
	// unproject is periodic in x
	if q2 := pj.p.Unproject(r2.Point{X: pp.X + float64(r.Intn(5)-2)*wrap, Y: pp.Y}); q2.Distance(q).Radians() > 1e-14+8*eps*math.Abs(pp.X/pj.scale+4)*4 {
		c.Violation("Projection/"+pj.name+"/unproject-not-periodic/"+mon.Severity(q2.Distance(q).Radians()), "Unproject differs between copies of the world", det())
	}
}

func genPolyline(r *rand.Rand, tol float64) ([]s2.Point, string) {
	n := 2 + r.Intn(60)
	if r.Intn(10) == 0 {
		n = 200 + r.Intn(2800)
	}
	start := gen.Uniform(r)
	if r.Intn(6) == 0 {
		start = gen.Special(r)
	}
	x, y, z := gen.Frame(start)
	_ = z
	dir := r.Float64() * 2 * math.Pi
	heading := func(d float64) r3.Vector { return x.Mul(math.Cos(d)).Add(y.Mul(math.Sin(d))) }
	kind := []string{"walk", "noisy-straight", "out-and-back", "zigzag", "duplicates", "long-edges"}[r.Intn(6)]
	vs := []s2.Point{start}
	step := tol * gen.LogUniform(r, 0.05, 50)
	if step > 0.5 {
		step = 0.5
	}
	if step < 1e-14 {
		step = 1e-14
	}
	switch kind {
	case "walk":
		p := start
		for len(vs) < n {
			p = gen.Near(r, p, step*(0.2+r.Float64()))
			vs = append(vs, p)
		}
	case "noisy-straight":
		h := heading(dir)
		side := heading(dir + math.Pi/2)
		noise := tol * []float64{0.3, 0.9, 0.999, 1.001, 1.1, 3}[r.Intn(6)]
		for k := 1; len(vs) < n; k++ {
			t := float64(k) * step
			if t > 1.5 {
				break
			}
			p := start.Mul(math.Cos(t)).Add(h.Mul(math.Sin(t))).Add(side.Mul((2*r.Float64() - 1) * noise))
			vs = append(vs, s2.Point{Vector: p.Normalize()})
		}
	case "out-and-back":
		h := heading(dir)
		side := heading(dir + math.Pi/2)
		// out in large steps, back in steps below the tolerance, then onwards
		t := 0.0
		outSteps := 1 + r.Intn(4)
		for k := 0; k < outSteps; k++ {
			t += tol * (2 + 10*r.Float64())
			vs = append(vs, s2.Point{Vector: start.Mul(math.Cos(t)).Add(h.Mul(math.Sin(t))).Add(side.Mul(tol * 0.1 * (2*r.Float64() - 1))).Normalize()})
		}
		back := tol * []float64{0.2, 0.5, 0.9, 1.5}[r.Intn(4)]
		for t > tol*0.5 && len(vs) < n {
			t -= back * (0.5 + 0.5*r.Float64())
			if t < 0 {
				t = 0
			}
			vs = append(vs, s2.Point{Vector: start.Mul(math.Cos(t)).Add(h.Mul(math.Sin(t))).Add(side.Mul(tol * 0.1 * (2*r.Float64() - 1))).Normalize()})
		}
		for k := 0; k < r.Intn(3); k++ {
			vs = append(vs, gen.Near(r, vs[len(vs)-1], tol*(2+20*r.Float64())))
		}
	case "zigzag":
		h := heading(dir)
		side := heading(dir + math.Pi/2)
		amp := tol * []float64{0.5, 0.99, 1.01, 2, 10}[r.Intn(5)]
		for k := 1; len(vs) < n; k++ {
			t := float64(k) * step
			if t > 1.5 {
				break
			}
			s := amp * float64(2*(k%2)-1)
			vs = append(vs, s2.Point{Vector: start.Mul(math.Cos(t)).Add(h.Mul(math.Sin(t))).Add(side.Mul(s)).Normalize()})
		}
	case "duplicates":
		p := start
		for len(vs) < n {
			if r.Intn(3) == 0 {
				vs = append(vs, p)
				continue
			}
			p = gen.Near(r, p, step*(0.2+r.Float64()))
			vs = append(vs, p)
		}
		if r.Intn(3) == 0 {
			vs[len(vs)-1] = vs[0]
		}
	case "long-edges":
		p := start
		for len(vs) < minInt(n, 12) {
			var nx s2.Point
			if r.Intn(2) == 0 {
				nx = gen.Near(r, p, 1.5+1.5*r.Float64())
			} else {
				nx = gen.Near(r, p, step)
			}
			if ref.Antipodal(gen.V(nx), gen.V(p)) || nx.Angle(p.Vector).Radians() > math.Pi-1e-3 {
				continue
			}
			p = nx
			vs = append(vs, p)
		}
	}
	// a valid polyline has no identical or antipodal neighbours, except in the "duplicates" family
	// (SubsampleVertices is documented to cope with duplicates)
	return vs, kind
}

func minInt(a, b int) int {
	if a < b {
		return a
	}
	return b
}

func subsampleCase(c *mon.Case) {
	r := c.R
	tol := gen.LogUniform(r, 1e-13, 1)
	switch r.Intn(20) {
	case 0:
		tol = 0
	case 1:
		tol = -1
	}
	gtol := tol
	if gtol <= 0 {
		gtol = 1e-6
	}
	vs, kind := genPolyline(r, gtol)
	if len(vs) < 2 {
		return
	}
	pl := s2.Polyline(append([]s2.Point(nil), vs...))
	idx := pl.SubsampleVertices(s1.Angle(tol))
	c.Count("subsample.checked", 1)
	c.Count("subsample.kind."+kind, 1)
	det := func(extra map[string]any) any {
		d := map[string]any{"kind": kind, "n": len(vs), "tolerance": tol, "kept": len(idx)}
		if len(vs) <= 24 {
			d["vertices"] = gen.HexAll(vs...)
			d["indices"] = idx
		} else {
			d["head"] = gen.HexAll(vs[:3]...)
		}
		for k, v := range extra {
			d[k] = v
		}
		return d
	}
	if c.I < 2 {
		c.Sample(det(nil))
	}
	etol := math.Max(tol, 0)
	n := len(vs)
	if len(idx) == 0 || idx[0] != 0 {
		c.Violation("SubsampleVertices/first-vertex-not-kept/wrong-answer", "the first index returned is not 0", det(nil))
		return
	}
	for k := 1; k < len(idx); k++ {
		if idx[k] <= idx[k-1] || idx[k] >= n {
			c.Violation("SubsampleVertices/indices-not-increasing/wrong-answer", fmt.Sprintf("indices %d,%d are not strictly increasing within range", idx[k-1], idx[k]), det(nil))
			return
		}
		if vs[idx[k]] == vs[idx[k-1]] {
			c.Violation("SubsampleVertices/duplicate-neighbours/wrong-answer", fmt.Sprintf("kept vertices %d and %d are identical", idx[k-1], idx[k]), det(nil))
			return
		}
		if ref.Antipodal(gen.V(vs[idx[k]]), gen.V(vs[idx[k-1]])) {
			c.Violation("SubsampleVertices/antipodal-neighbours/wrong-answer", fmt.Sprintf("kept vertices %d and %d are antipodal", idx[k-1], idx[k]), det(nil))
			return
		}
	}
	if vs[0] != vs[n-1] && vs[idx[len(idx)-1]] != vs[n-1] {
		c.Violation("SubsampleVertices/last-vertex-not-kept/wrong-answer", fmt.Sprintf("first and last vertices differ but the last kept vertex (index %d) is not the last vertex", idx[len(idx)-1]), det(nil))
	}
	if len(idx) < n {
		c.Distinct(gen.Bits(vs[0], vs[n-1])...)
		c.Distinct(math.Float64bits(tol), uint64(n))
	}
	// every dropped vertex is within the tolerance of the simplified polyline
	distToSimplified := func(p s2.Point) float64 {
		best := math.Inf(1)
		if len(idx) == 1 {
			return p.Distance(vs[idx[0]]).Radians()
		}
		for k := 0; k+1 < len(idx); k++ {
			best = math.Min(best, distRef(p, vs[idx[k]], vs[idx[k+1]]))
		}
		return best
	}
	seg := 0
	for k := 0; k < n; k++ {
		for seg+1 < len(idx) && idx[seg+1] <= k {
			seg++
		}
		if idx[seg] == k {
			continue
		}
		c.Count("subsample.dropped_vertices", 1)
		var d float64
		if seg+1 < len(idx) {
			d = s2.DistanceFromSegment(vs[k], vs[idx[seg]], vs[idx[seg+1]]).Radians()
		} else {
			d = vs[k].Distance(vs[idx[seg]]).Radians()
		}
		if etol > 0 {
			c.Max("subsample.error_over_tolerance", d/etol)
		}
		if d > allow(etol) {
			if d = distToSimplified(vs[k]); d > allow(etol) {
				ratio := math.Inf(1)
				if etol > 0 {
					ratio = d / etol
				}
				c.Violation("SubsampleVertices/dropped-vertex-beyond-tolerance/"+kind+"/"+bucket(ratio), fmt.Sprintf("dropped vertex %d is %.6g rad from the simplified polyline: %.4f x the tolerance %.6g", k, d, ratio, etol), det(map[string]any{"vertex": k, "distance": d}))
				return
			}
		}
	}
}

func snapCase(c *mon.Case) {
	r := c.R
	var p s2.Point
	switch r.Intn(5) {
	case 0:
		p = gen.Special(r)
	case 1: // near a pole
		p = gen.Near(r, s2.Point{Vector: r3.Vector{Z: float64(2*r.Intn(2) - 1)}}, gen.LogUniform(r, 1e-12, 0.1))
	default:
		p = gen.Uniform(r)
	}
	if r.Intn(2) == 0 {
		level := r.Intn(31)
		var sn s2.CellIDSnapper
		name := fmt.Sprintf("CellIDSnapperForLevel(%d)", level)
		if r.Intn(8) == 0 {
			sn, level, name = s2.NewCellIDSnapper(), 30, "NewCellIDSnapper()"
		} else {
			sn = s2.CellIDSnapperForLevel(level)
		}
		// worst cases: the corners of the cell and of its neighbours
		if r.Intn(2) == 0 {
			cell := s2.CellFromCellID(s2.CellFromPoint(p).ID().Parent(level))
			p = cell.Vertex(r.Intn(4))
			if r.Intn(2) == 0 {
				p = gen.NudgeUlps(r, p, 2)
			}
		}
		q := sn.SnapPoint(p)
		c.Count("snap.cellid.checked", 1)
		c.Distinct(gen.Bits(p)...)
		c.Distinct(uint64(level))
		rad := sn.SnapRadius().Radians()
		d := ref.Angle(ref.HV(gen.V(p)), ref.HV(gen.V(q)))
		c.Max("snap.cellid.moved_over_radius", d/math.Max(rad, 1e-300))
		det := func() any {
			return map[string]any{"snapper": name, "point": gen.Hex(p), "snapped": gen.Hex(q), "moved": d, "snap_radius": rad}
		}
		if c.I < 2 {
			c.Sample(det())
		}
		if d > rad {
			which := "CellIDSnapperForLevel"
			if name == "NewCellIDSnapper()" {
				which = "NewCellIDSnapper"
			}
			c.Violation("Snapper/"+which+"/moved-beyond-snap-radius/"+bucket(d/math.Max(rad, 1e-300)), fmt.Sprintf("%s moved the point by %.6g rad, declared snap radius %.6g", name, d, rad), det())
		}
		id := s2.CellFromPoint(q).ID()
		if site := id.Parent(level).Point(); site != q {
			c.Violation("Snapper/CellID/not-a-cell-centre/wrong-answer", fmt.Sprintf("%s returned a point that is not the centre of a level-%d cell", name, level), det())
		}
		return
	}
	exp := r.Intn(11)
	sn := s2.NewIntLatLngSnapper(exp)
	pow := math.Pow10(exp)
	if r.Intn(2) == 0 { // half-way between grid sites: the farthest a point can be from the grid
		ll := s2.LatLngFromPoint(p)
		la := (math.Floor(ll.Lat.Degrees()*pow) + 0.5) / pow
		lo := (math.Floor(ll.Lng.Degrees()*pow) + 0.5) / pow
		if math.Abs(la) <= 90 && math.Abs(lo) <= 180 {
			p = s2.PointFromLatLng(s2.LatLngFromDegrees(la, lo))
			if r.Intn(2) == 0 {
				p = gen.NudgeUlps(r, p, 2)
			}
		}
	}
	q := sn.SnapPoint(p)
	c.Count("snap.latlng.checked", 1)
	c.Distinct(gen.Bits(p)...)
	c.Distinct(uint64(100 + exp))
	rad := sn.SnapRadius().Radians()
	d := ref.Angle(ref.HV(gen.V(p)), ref.HV(gen.V(q)))
	c.Max("snap.latlng.moved_over_radius", d/rad)
	det := func() any {
		return map[string]any{"snapper": fmt.Sprintf("NewIntLatLngSnapper(%d)", exp), "point": gen.Hex(p), "snapped": gen.Hex(q), "moved": d, "snap_radius": rad, "point_lat_lng_deg": []float64{s2.LatLngFromPoint(p).Lat.Degrees(), s2.LatLngFromPoint(p).Lng.Degrees()}, "snapped_lat_lng_deg": []float64{s2.LatLngFromPoint(q).Lat.Degrees(), s2.LatLngFromPoint(q).Lng.Degrees()}}
	}
	if c.I < 2 {
		c.Sample(det())
	}
	if !(d <= rad) {
		c.Violation("Snapper/IntLatLng/moved-beyond-snap-radius/"+bucket(d/rad), fmt.Sprintf("NewIntLatLngSnapper(%d) moved the point by %.6g rad, declared snap radius %.6g", exp, d, rad), det())
	}
	// the result is a site of the 10^-exp degree grid
	ql := s2.LatLngFromPoint(q)
	la, lo := math.Round(ql.Lat.Degrees()*pow)/pow, math.Round(ql.Lng.Degrees()*pow)/pow
	site := s2.PointFromLatLng(s2.LatLngFromDegrees(la, lo))
	if e := site.Distance(q).Radians(); !(e <= 1e-14) {
		c.Violation("Snapper/IntLatLng/not-a-grid-site/"+mon.Severity(e), fmt.Sprintf("NewIntLatLngSnapper(%d) returned a point %.3g rad away from the nearest site of the 1e-%d degree grid", exp, e, exp), det())
	}
}
