// Package c11 monitors C11: cell-union algebra is exact set algebra on leaf cells.
package c11

import (
	"fmt"
	"sort"
	"strings"

	"github.com/golang/geo/s2"
	"github.com/golang/geo/s2/s2intersect"

	"verif/internal/gen"
	"verif/internal/mon"
	"verif/internal/ref"
)

func Run(m *mon.M) {
	m.Rule = "multisets of cell ids clustered under a few anchors (nested, overlapping, duplicated, complete and 3-of-4 sibling groups at several levels, whole faces, ends of faces and of the curve), pairs/tuples of them; a case is non-trivial and distinct when the id list is new AND the multiset is not already normalized (or, for binary operations, the operands' leaf sets overlap or touch)"
	m.Assumptions = []string{"internal/ref leaf-interval set model (sorted disjoint integer intervals; ~100 lines, self-checked by set identities each run)"}
	m.Require("normalize.changed", 1000)
	m.Require("binary.overlapping", 1000)
	m.Require("find.nonempty", 200)
	m.Require("cellindex.ranges", 1000)
	m.Require("cellindex.reused_ranges", 1000)
	m.Require("find.many_unions", 200)
	m.Stream("normalize", m.N(60000, 5000000), normalize)
	m.Stream("binary", m.N(60000, 5000000), binary)
	m.Stream("range", m.N(60000, 5000000), fromRange)
	m.Stream("find", m.N(15000, 1000000), find)
	m.Stream("cellindex", m.N(15000, 1000000), cellIndex)
}

func ids(cu []s2.CellID) []uint64 {
	out := make([]uint64, len(cu))
	for i, c := range cu {
		out[i] = uint64(c)
	}
	return out
}

func toks(cu []s2.CellID) []string {
	out := make([]string, len(cu))
	for i, c := range cu {
		out[i] = c.ToToken()
	}
	return out
}

func eqIDs(a []s2.CellID, b []uint64) bool {
	if len(a) != len(b) {
		return false
	}
	for i := range a {
		if uint64(a[i]) != b[i] {
			return false
		}
	}
	return true
}

func canonToks(v []uint64) []string {
	out := make([]string, len(v))
	for i, c := range v {
		out[i] = s2.CellID(c).ToToken()
	}
	return out
}

func selfCheck(c *mon.Case, a, b ref.LeafSet) {
	// model identities: |A u B| + |A n B| = |A| + |B| ; A \ B and A n B partition A ; canonical form round-trips
	if a.Union(b).Count()+a.Intersect(b).Count() != a.Count()+b.Count() {
		c.M.Broken("leaf-set model violates inclusion-exclusion")
	}
	if !a.Diff(b).Union(a.Intersect(b)).Equal(a) {
		c.M.Broken("leaf-set model: difference and intersection do not partition A")
	}
	if !ref.FromCells(a.Canonical()).Equal(a) {
		c.M.Broken("leaf-set model: canonical form does not cover the same set")
	}
}

func normalize(c *mon.Case) {
	in := gen.CellMultiset(c.R, 40)
	model := ref.FromCells(ids(in))
	want := model.Canonical()
	cu := s2.CellUnion(append([]s2.CellID(nil), in...))
	wasNormalized := cu.IsNormalized()
	cu.Normalize()
	det := map[string]any{"input": toks(in), "normalized": toks(cu), "canonical": canonToks(want)}
	if c.I < 3 {
		c.Sample(det)
	}
	selfCheck(c, model, ref.FromCells(ids(gen.CellMultiset(c.R, 10))))
	c.Count("normalize.calls", 1)
	if !eqIDs(in, want) {
		c.Count("normalize.changed", 1)
		c.Distinct(ids(in)...)
	}
	got := ref.FromCells(ids(cu))
	if !got.Equal(model) {
		kind := "loses-leaves"
		if len(got.Diff(model)) > 0 {
			kind = "adds-leaves"
		}
		c.Violation("Normalize/"+kind+"/wrong-answer", fmt.Sprintf("Normalize changed the covered leaf set (%d leaves before, %d after)", model.Count(), got.Count()), det)
	} else if !eqIDs(cu, want) {
		c.Violation("Normalize/not-canonical/wrong-answer", "Normalize kept the leaf set but the result is not the unique sorted, non-overlapping, sibling-merged form", det)
	}
	if !cu.IsValid() || !cu.IsNormalized() {
		c.Violation("Normalize/result-not-valid-normalized/wrong-answer", "IsValid/IsNormalized false on the result of Normalize", det)
	}
	if wasNormalized != eqIDs(in, want) {
		c.Violation("IsNormalized/wrong-answer", fmt.Sprintf("IsNormalized=%v but input %s the canonical form", wasNormalized, map[bool]string{true: "is", false: "is not"}[eqIDs(in, want)]), det)
	}
	if lc := cu.LeafCellsCovered(); uint64(lc) != model.Count() {
		c.Violation("LeafCellsCovered/wrong-answer", fmt.Sprintf("LeafCellsCovered=%d model=%d", lc, model.Count()), det)
	}
	// Denormalize covers the same set and honours its parameters
	minLevel, levelMod := c.R.Intn(8), 1+c.R.Intn(3)
	small := len(cu) > 0
	for _, id := range cu {
		if id.Level()+5 < minLevel { // bound the blow-up of the workload: at most 4^7 cells per input cell
			small = false
		}
	}
	if small {
		dn := s2.CellUnion(append([]s2.CellID(nil), cu...))
		dn.Denormalize(minLevel, levelMod)
		if !ref.FromCells(ids(dn)).Equal(model) {
			c.Violation("Denormalize/changes-set/wrong-answer", "Denormalize changed the covered leaf set", det)
		}
		for _, id := range dn {
			if id.Level() < 30 && (id.Level() < minLevel || (id.Level()-minLevel)%levelMod != 0) {
				c.Violation("Denormalize/level/wrong-answer", fmt.Sprintf("cell at level %d with minLevel %d levelMod %d", id.Level(), minLevel, levelMod), det)
				break
			}
		}
	}
}

func binary(c *mon.Case) {
	a := s2.CellUnion(gen.CellMultiset(c.R, 25))
	var b s2.CellUnion
	if c.R.Intn(3) == 0 {
		// b derived from a: descendants/ancestors/neighbours of a's cells (seams)
		for _, id := range a {
			switch c.R.Intn(5) {
			case 0:
				if !id.IsLeaf() {
					b = append(b, id.Children()[c.R.Intn(4)])
				}
			case 1:
				if id.Level() > 0 {
					b = append(b, id.Parent(id.Level()-1))
				}
			case 2:
				b = append(b, id.NextWrap())
			case 3:
				if id.Level() < 28 {
					b = append(b, id.ChildEndAtLevel(id.Level()+2).Prev())
				}
			}
		}
	} else {
		b = s2.CellUnion(gen.CellMultiset(c.R, 25))
	}
	a.Normalize()
	b.Normalize()
	ma, mb := ref.FromCells(ids(a)), ref.FromCells(ids(b))
	selfCheck(c, ma, mb)
	det := map[string]any{"A": toks(a), "B": toks(b)}
	if c.I < 3 {
		c.Sample(det)
	}
	c.Count("binary.calls", 1)
	if ma.Intersects(mb) {
		c.Count("binary.overlapping", 1)
		c.Distinct(append(ids(a), append([]uint64{0}, ids(b)...)...)...)
	}
	check := func(name string, got s2.CellUnion, want ref.LeafSet) {
		g := ref.FromCells(ids(got))
		if !g.Equal(want) {
			d := map[string]any{"A": toks(a), "B": toks(b), "got": toks(got), "want": canonToks(want.Canonical())}
			c.Violation(name+"/wrong-set/wrong-answer", fmt.Sprintf("%s covers %d leaves, the set operation gives %d", name, g.Count(), want.Count()), d)
		} else if !eqIDs(got, want.Canonical()) {
			d := map[string]any{"A": toks(a), "B": toks(b), "got": toks(got), "want": canonToks(want.Canonical())}
			c.Violation(name+"/not-normalized/wrong-answer", name+" result is not in normalized form", d)
		}
	}
	check("CellUnionFromUnion", s2.CellUnionFromUnion(a, b), ma.Union(mb))
	// round 9: other arities of the variadic union, with raw (unsorted, duplicated, overlapping) arguments
	// and empty ones mixed in; the result is the normalized form of the union of the covered sets.
	{
		raw := s2.CellUnion(gen.CellMultiset(c.R, 12))
		if c.R.Intn(2) == 0 && len(a) > 0 {
			id := a[c.R.Intn(len(a))]
			raw = append(raw, id)
			if id.Level() < 30 {
				ch := id.Children()
				raw = append(raw, ch[3], ch[1], ch[0], ch[2], id)
			}
		}
		mr := ref.FromCells(ids(raw))
		cp := func(x s2.CellUnion) s2.CellUnion { return append(s2.CellUnion{}, x...) }
		c.Count("union.arities", 1)
		switch c.R.Intn(5) {
		case 0:
			check("CellUnionFromUnion/1", s2.CellUnionFromUnion(cp(raw)), mr)
		case 1:
			check("CellUnionFromUnion/1+empty", s2.CellUnionFromUnion(nil, cp(raw), s2.CellUnion{}), mr)
		case 2:
			check("CellUnionFromUnion/0", s2.CellUnionFromUnion(), ref.FromCells(nil))
		case 3:
			check("CellUnionFromUnion/3", s2.CellUnionFromUnion(a, cp(raw), b), ma.Union(mb).Union(mr))
		default:
			check("CellUnionFromUnion/raw+1", s2.CellUnionFromUnion(cp(raw), b), mr.Union(mb))
		}
	}
	check("CellUnionFromIntersection", s2.CellUnionFromIntersection(a, b), ma.Intersect(mb))
	check("CellUnionFromDifference", s2.CellUnionFromDifference(a, b), ma.Diff(mb))
	if got, want := a.Contains(b), ma.ContainsSet(mb); got != want {
		c.Violation("Contains/wrong-answer", fmt.Sprintf("A.Contains(B)=%v, leaf sets say %v", got, want), det)
	}
	if got, want := a.Intersects(b), ma.Intersects(mb); got != want {
		c.Violation("Intersects/wrong-answer", fmt.Sprintf("A.Intersects(B)=%v, leaf sets say %v", got, want), det)
	}
	if a.Intersects(b) != b.Intersects(a) {
		c.Violation("Intersects/asymmetric/wrong-answer", "Intersects is not symmetric", det)
	}
	// single-cell forms, with cells taken from b, their parents and children
	var probes []s2.CellID
	for _, id := range b {
		probes = append(probes, id)
		if id.Level() > 0 {
			probes = append(probes, id.Parent(c.R.Intn(id.Level())))
		}
		if !id.IsLeaf() {
			probes = append(probes, id.Children()[c.R.Intn(4)], id.ChildBeginAtLevel(30), id.ChildEndAtLevel(30).Prev())
		}
	}
	for _, id := range a {
		probes = append(probes, id, id.NextWrap(), id.PrevWrap())
	}
	for _, id := range probes {
		mi := ref.FromCells([]uint64{uint64(id)})
		d := map[string]any{"A": toks(a), "cell": id.ToToken()}
		if got, want := a.ContainsCellID(id), ma.ContainsSet(mi); got != want {
			c.Violation("ContainsCellID/wrong-answer", fmt.Sprintf("ContainsCellID=%v, leaf sets say %v", got, want), d)
		}
		if got, want := a.IntersectsCellID(id), ma.Intersects(mi); got != want {
			c.Violation("IntersectsCellID/wrong-answer", fmt.Sprintf("IntersectsCellID=%v, leaf sets say %v", got, want), d)
		}
		// the Cell / Point forms are documented as the same tests on the cell's id / the point's leaf cell
		if got, want := a.ContainsCell(s2.CellFromCellID(id)), ma.ContainsSet(mi); got != want {
			c.Violation("ContainsCell/wrong-answer", fmt.Sprintf("ContainsCell=%v, leaf sets say %v", got, want), d)
		}
		if got, want := a.IntersectsCell(s2.CellFromCellID(id)), ma.Intersects(mi); got != want {
			c.Violation("IntersectsCell/wrong-answer", fmt.Sprintf("IntersectsCell=%v, leaf sets say %v", got, want), d)
		}
		if id.IsLeaf() {
			if got, want := a.ContainsPoint(id.Point()), ma.ContainsSet(mi); got != want {
				c.Violation("ContainsPoint/wrong-answer", fmt.Sprintf("ContainsPoint(centre of leaf %s)=%v, leaf sets say %v", id.ToToken(), got, want), d)
			}
		}
		g := ref.FromCells(ids(s2.CellUnionFromIntersectionWithCellID(a, id)))
		if !g.Equal(ma.Intersect(mi)) {
			c.Violation("CellUnionFromIntersectionWithCellID/wrong-set/wrong-answer", "intersection with a single cell covers the wrong leaves", d)
		}
		c.Count("binary.cell_probes", 1)
	}
}

func fromRange(c *mon.Case) {
	r := c.R
	lvl := r.Intn(31)
	a := gen.RandCellID(r, lvl).RangeMin()
	end := s2.CellIDFromFace(5).ChildEndAtLevel(30)
	var b s2.CellID
	switch r.Intn(4) {
	case 0:
		b = gen.RandCellID(r, r.Intn(31)).RangeMax().Next()
	case 1:
		b = a.Parent(r.Intn(lvl + 1)).RangeMax().Next()
	case 2:
		b = a.Advance(int64(1 + r.Intn(1000)))
	default:
		b = end
	}
	if r.Intn(6) == 0 {
		a = s2.CellIDFromFace(0).ChildBeginAtLevel(30)
	}
	if b < a {
		a, b = b, a
	}
	if b > end {
		b = end
	}
	if !a.IsLeaf() || !(b.IsLeaf() || b == end) {
		return
	}
	got := s2.CellUnionFromRange(a, b)
	want := ref.Tile(uint64(a)>>1, uint64(b)>>1)
	c.Count("range.calls", 1)
	c.Distinct(uint64(a), uint64(b))
	if !eqIDs(got, want) {
		c.Violation("CellUnionFromRange/not-minimal-tiling/wrong-answer", fmt.Sprintf("range tiled by %d cells, the minimal tiling has %d", len(got), len(want)),
			map[string]any{"begin": a.ToToken(), "end": fmt.Sprintf("%x", uint64(b)), "got": toks(got), "want": canonToks(want)})
	}
	if c.I < 2 {
		c.Sample(map[string]any{"begin": a.ToToken(), "end": fmt.Sprintf("%x", uint64(b)), "cells": len(got)})
	}
}

func keyOf(ix []int) string {
	s := append([]int(nil), ix...)
	sort.Ints(s)
	return strings.Trim(strings.Join(strings.Fields(fmt.Sprint(s)), ","), "[]")
}

func find(c *mon.Case) {
	r := c.R
	n := 2 + r.Intn(4)
	if r.Intn(5) == 0 {
		n = 10 + r.Intn(16) // two-digit indices
		c.Count("find.many_unions", 1)
	}
	cus := make([]s2.CellUnion, n)
	var models []ref.LeafSet
	base := gen.CellMultiset(r, 12)
	for i := range cus {
		if r.Intn(2) == 0 {
			cus[i] = s2.CellUnion(gen.CellMultiset(r, 12))
		} else {
			// share structure with base so that intersections are common; not normalized on purpose
			for _, id := range base {
				switch r.Intn(4) {
				case 0:
					cus[i] = append(cus[i], id)
				case 1:
					if !id.IsLeaf() {
						cus[i] = append(cus[i], id.Children()[r.Intn(4)])
					}
				case 2:
					if id.Level() > 0 {
						cus[i] = append(cus[i], id.Parent(id.Level()-1))
					}
				}
			}
		}
		models = append(models, ref.FromCells(ids(cus[i])))
	}
	var inToks [][]string
	for _, cu := range cus {
		inToks = append(inToks, toks(cu))
	}
	in := make([]s2.CellUnion, n)
	for i := range cus {
		in[i] = append(s2.CellUnion(nil), cus[i]...)
	}
	res := s2intersect.Find(in)
	// model: every boundary of every interval; for each elementary interval the set of unions covering it
	var cuts []uint64
	for _, m := range models {
		for _, iv := range m {
			cuts = append(cuts, iv.Lo, iv.Hi)
		}
	}
	sort.Slice(cuts, func(i, j int) bool { return cuts[i] < cuts[j] })
	want := map[string]ref.LeafSet{}
	for k := 0; k+1 < len(cuts); k++ {
		lo, hi := cuts[k], cuts[k+1]
		if lo == hi {
			continue
		}
		var ix []int
		for i, m := range models {
			if m.ContainsSet(ref.LeafSet{{Lo: lo, Hi: hi}}) {
				ix = append(ix, i)
			}
		}
		if len(ix) >= 2 {
			want[keyOf(ix)] = want[keyOf(ix)].Union(ref.LeafSet{{Lo: lo, Hi: hi}})
		}
	}
	c.Count("find.calls", 1)
	if len(want) > 0 {
		c.Count("find.nonempty", 1)
		c.Distinct(uint64(c.I))
	}
	det := func() any {
		var out []any
		for _, x := range res {
			out = append(out, map[string]any{"indices": x.Indices, "cells": toks(x.Intersection)})
		}
		w := map[string]any{}
		for k, v := range want {
			w[k] = canonToks(v.Canonical())
		}
		return map[string]any{"inputs": inToks, "find": out, "want": w}
	}
	if c.I < 2 {
		c.Sample(det())
	}
	seen := map[string]bool{}
	for _, x := range res {
		k := keyOf(x.Indices)
		if seen[k] {
			c.Violation("Find/duplicate-index-set/wrong-answer", "Find returned the same index set twice: "+k, det())
		}
		seen[k] = true
		w, ok := want[k]
		g := ref.FromCells(ids(x.Intersection))
		if !ok {
			if len(g) > 0 || len(x.Indices) < 2 {
				c.Violation("Find/unexpected-index-set/wrong-answer", "Find reports an intersection for index set {"+k+"} that covers no leaf exclusively", det())
			}
			continue
		}
		if !g.Equal(w) {
			c.Violation("Find/wrong-set/wrong-answer", fmt.Sprintf("Find{%s} covers %d leaves, exactly-this-subset region has %d", k, g.Count(), w.Count()), det())
		}
	}
	for k := range want {
		if !seen[k] {
			c.Violation("Find/missing-index-set/wrong-answer", "Find does not report the region covered by exactly {"+k+"}", det())
		}
	}
}

func cellIndex(c *mon.Case) {
	r := c.R
	var idx s2.CellIndex
	type pair struct {
		id    s2.CellID
		label int32
	}
	var pairs []pair
	nUnions := 1 + r.Intn(4)
	for l := 0; l < nUnions; l++ {
		for _, id := range gen.CellMultiset(r, 10) {
			pairs = append(pairs, pair{id, int32(l)})
			idx.Add(id, int32(l))
		}
	}
	idx.Build()
	end := s2.CellIDFromFace(5).ChildEndAtLevel(30)
	next := s2.CellIDFromFace(0).ChildBeginAtLevel(30)
	it := s2.NewCellIndexRangeIterator(&idx)
	det := func() any {
		var ps []string
		for _, p := range pairs {
			ps = append(ps, fmt.Sprintf("%s:%d", p.id.ToToken(), p.label))
		}
		return map[string]any{"pairs": ps}
	}
	if c.I < 2 {
		c.Sample(det())
	}
	// one contents iterator reused over all ranges: mode 1 calls Clear() before every range (each range must
	// then yield exactly its contents), mode 2 never clears (pairs already reported for an earlier range may
	// be suppressed, nothing else may be missing or added)
	reuseMode := r.Intn(3)
	reused := s2.NewCellIndexContentsIterator(&idx)
	reported := map[pair]bool{}
	var starts []s2.CellID
	nr := 0
	for it.Begin(); !it.Done(); it.Next() {
		nr++
		if nr > 10*len(pairs)+20 {
			c.Violation("CellIndex/range-iterator/too-many-ranges/wrong-answer", "range iterator does not terminate in a plausible number of ranges", det())
			return
		}
		s, l := it.StartID(), it.LimitID()
		if s != next || !(s < l) {
			c.Violation("CellIndex/range-iterator/not-a-tiling/wrong-answer", fmt.Sprintf("range starts at %x, previous range ended at %x (limit %x)", uint64(s), uint64(next), uint64(l)), det())
			return
		}
		next = l
		starts = append(starts, s)
		// contents
		want := map[pair]int{}
		for _, p := range pairs {
			covers := p.id.RangeMin() <= s && p.id.RangeMax().Next() >= l
			meets := p.id.RangeMin() < l && p.id.RangeMax() >= s
			if covers {
				want[p]++
			} else if meets {
				c.Violation("CellIndex/range-iterator/range-not-elementary/wrong-answer", fmt.Sprintf("cell %s meets range [%x,%x) without covering it", p.id.ToToken(), uint64(s), uint64(l)), det())
			}
		}
		got := map[pair]int{}
		ci := s2.NewCellIndexContentsIterator(&idx)
		k := 0
		for ci.StartUnion(it); !ci.Done(); ci.Next() {
			got[pair{ci.CellID(), ci.Label()}]++
			if k++; k > len(pairs)+5 {
				c.Violation("CellIndex/contents-iterator/does-not-terminate/wrong-answer", "contents iterator yields more pairs than the index holds", det())
				return
			}
		}
		if (len(want) == 0) != it.IsEmpty() {
			c.Violation("CellIndex/range-iterator/IsEmpty/wrong-answer", fmt.Sprintf("IsEmpty=%v but %d pairs cover the range", it.IsEmpty(), len(want)), det())
		}
		same := len(got) == len(want)
		for p := range want {
			if got[p] == 0 {
				same = false
			}
		}
		if !same {
			c.Violation("CellIndex/contents/wrong-answer", fmt.Sprintf("range [%x,%x): contents iterator yields %d distinct pairs, %d cover it", uint64(s), uint64(l), len(got), len(want)), det())
		}
		if reuseMode > 0 {
			if reuseMode == 1 {
				reused.Clear()
			}
			got2 := map[pair]int{}
			k := 0
			for reused.StartUnion(it); !reused.Done(); reused.Next() {
				got2[pair{reused.CellID(), reused.Label()}]++
				if k++; k > len(pairs)+5 {
					c.Violation("CellIndex/contents-iterator/reused/does-not-terminate/wrong-answer", "reused contents iterator yields more pairs than the index holds", det())
					return
				}
			}
			c.Count("cellindex.reused_ranges", 1)
			for p := range got2 {
				if want[p] == 0 {
					c.Violation("CellIndex/contents/reused/reports-pair-not-covering-range/wrong-answer", fmt.Sprintf("range [%x,%x): reused contents iterator (mode %d) reports %s:%d which does not cover the range", uint64(s), uint64(l), reuseMode, p.id.ToToken(), p.label), det())
				}
			}
			for p := range want {
				if got2[p] == 0 && !(reuseMode == 2 && reported[p]) {
					what := "after Clear()"
					if reuseMode == 2 {
						what = "without Clear(), and the pair was not reported for an earlier range"
					}
					c.Violation("CellIndex/contents/reused/missing-pair/wrong-answer", fmt.Sprintf("range [%x,%x): reused contents iterator misses %s:%d (%s)", uint64(s), uint64(l), p.id.ToToken(), p.label, what), det())
				}
			}
			for p := range got2 {
				reported[p] = true
			}
		}
		c.Count("cellindex.ranges", 1)
	}
	if next != end {
		c.Violation("CellIndex/range-iterator/not-a-tiling/wrong-answer", fmt.Sprintf("ranges end at %x, the curve ends at %x", uint64(next), uint64(end)), det())
	}
	// one contents iterator, never cleared, over the ranges in an arbitrary order (a later range, an earlier
	// one, one in between, ...): every pair covering a visited range is reported for it or was reported for a
	// range visited before ("each result is reported at least once"), and nothing else is reported
	if len(starts) > 2 && c.I%2 == 0 {
		anyOrder := s2.NewCellIndexContentsIterator(&idx)
		seen := map[pair]bool{}
		it2 := s2.NewCellIndexRangeIterator(&idx)
		order := r.Perm(len(starts))
		if len(order) > 40 {
			order = order[:40]
		}
		for _, oi := range order {
			it2.Seek(starts[oi])
			s, l := it2.StartID(), it2.LimitID()
			if s != starts[oi] {
				c.Violation("CellIndex/range-iterator/Seek/wrong-answer", fmt.Sprintf("Seek(%x) positions the iterator at the range starting at %x", uint64(starts[oi]), uint64(s)), det())
				break
			}
			got := map[pair]bool{}
			k := 0
			for anyOrder.StartUnion(it2); !anyOrder.Done(); anyOrder.Next() {
				got[pair{anyOrder.CellID(), anyOrder.Label()}] = true
				if k++; k > len(pairs)+5 {
					c.Violation("CellIndex/contents-iterator/reused/does-not-terminate/wrong-answer", "reused contents iterator yields more pairs than the index holds", det())
					return
				}
			}
			c.Count("cellindex.reused_ranges_any_order", 1)
			bad := false
			for _, p := range pairs {
				covers := p.id.RangeMin() <= s && p.id.RangeMax().Next() >= l
				if covers && !got[p] && !seen[p] {
					c.Violation("CellIndex/contents/reused-any-order/missing-pair/wrong-answer", fmt.Sprintf("range [%x,%x): a contents iterator reused without Clear() over ranges in arbitrary order never reported %s:%d, neither for this range nor for one visited before", uint64(s), uint64(l), p.id.ToToken(), p.label), det())
					bad = true
					break
				}
				if !covers && got[p] {
					c.Violation("CellIndex/contents/reused/reports-pair-not-covering-range/wrong-answer", fmt.Sprintf("range [%x,%x): reused contents iterator (arbitrary order) reports %s:%d which does not cover the range", uint64(s), uint64(l), p.id.ToToken(), p.label), det())
					bad = true
					break
				}
			}
			if bad {
				break
			}
			for p := range got {
				seen[p] = true
			}
		}
	}
	c.Distinct(uint64(c.I))
}
