// Package c09 monitors C09: encoding is lossless — decoding an encoding
// reproduces the value exactly.
package c09

import (
	"bytes"
	"fmt"
	"io"
	"math"
	"math/rand"
	"sync"

	"github.com/golang/geo/r1"
	"github.com/golang/geo/r3"
	"github.com/golang/geo/s1"
	"github.com/golang/geo/s2"

	"verif/internal/gen"
	"verif/internal/mon"
)

func Run(m *mon.M) {
	m.Rule = "values of every encodable type; polygons of 0..8 loops (rings with holes and islands, several groups) whose vertices are cell centres of one level, of mixed levels (coarser and finer than the majority), partly arbitrary, on every face and next to face boundaries (si/ti extremes), loops below and above 64 vertices; a value is non-trivial and distinct when its encoding bytes are new AND (it is a polygon/loop/polyline/cell union, i.e. has a variable-length encoding)"
	m.Assumptions = []string{"equality is bit-for-bit on coordinates (math.Float64bits) and element order; query agreement is checked on probe points"}
	m.Require("polygon.compressed", 1000)
	m.Require("polygon.lossless", 1000)
	m.Require("polygon.compressed.offcentre_some", 300)
	m.Require("polygon.compressed.offcentre_none", 300)
	m.Require("polygon.first_vertex_at_face_boundary", 50)
	m.Require("polygon.levels_seen", 20)
	m.Require("polygon.vertex_on_face_boundary", 100)
	m.Require("relations.compared", 10000)
	m.Require("reader.short_reads", 20000)
	m.Stream("polygon", m.N(40000, 1500000), polygon)
	m.Stream("zeros", m.N(4000, 200000), zerosCase)
	m.Stream("simple", m.N(60000, 3000000), simple)
	m.Stream("loop", m.N(8000, 400000), loop)
	// number of distinct snap levels chosen by the encoder
	lv := 0
	for l := 0; l <= 30; l++ {
		if m.Counter(fmt.Sprintf("polygon.snaplevel.%02d", l)) > 0 {
			lv++
		}
	}
	m.Count("polygon.levels_seen", int64(lv))
}

func bitsEq(a, b s2.Point) bool {
	return math.Float64bits(a.X) == math.Float64bits(b.X) && math.Float64bits(a.Y) == math.Float64bits(b.Y) && math.Float64bits(a.Z) == math.Float64bits(b.Z)
}

func fEq(a, b float64) bool { return math.Float64bits(a) == math.Float64bits(b) }

func rectEq(a, b s2.Rect) bool {
	return fEq(a.Lat.Lo, b.Lat.Lo) && fEq(a.Lat.Hi, b.Lat.Hi) && fEq(a.Lng.Lo, b.Lng.Lo) && fEq(a.Lng.Hi, b.Lng.Hi)
}

func hexb(b []byte) string {
	if len(b) > 160 {
		return fmt.Sprintf("%x...(%d bytes)", b[:160], len(b))
	}
	return fmt.Sprintf("%x", b)
}

// snapSome snaps vertices to cell centres: most at `level`, some at other
// levels, some left arbitrary; returns nil if the result is not star-shaped
// around the centre any more (or has duplicate vertices).
func snapSome(r *rand.Rand, sp gen.LoopSpec, level int, pOther, pFree float64) ([]s2.Point, float64, float64) {
	out := make([]s2.Point, len(sp.Vs))
	seen := map[s2.Point]bool{}
	for i, v := range sp.Vs {
		l := level
		u := r.Float64()
		switch {
		case u < pFree:
			l = -1
		case u < pFree+pOther:
			if r.Intn(2) == 0 && level < 30 {
				l = level + 1 + r.Intn(30-level) // finer
			} else if level > 0 {
				l = r.Intn(level) // coarser
			}
		}
		p := v
		if l >= 0 {
			p = s2.CellFromPoint(v).ID().Parent(l).Point()
		}
		if seen[p] {
			return nil, 0, 0
		}
		seen[p] = true
		out[i] = p
	}
	ok, rmin, rmax := gen.StarOK(sp.Center, out)
	if !ok {
		return nil, 0, 0
	}
	return out, rmin, rmax
}

// src returns the encoding behind one of the io.Reader shapes a caller may hand to Decode: a bytes.Reader
// (which is also an io.ByteReader), or a plain io.Reader that delivers the bytes in short reads of 1..7
// bytes, one byte at a time, or returns the last bytes together with io.EOF. All of them obey the io.Reader
// contract; the decoded value must not depend on the shape.
func src(c *mon.Case, b []byte) io.Reader {
	switch k := c.R.Intn(8); k {
	case 0, 1, 2:
		c.Count("reader.short_reads", 1)
		return &chunkReader{b: b, r: c.R, max: 7}
	case 3:
		c.Count("reader.one_byte", 1)
		return &chunkReader{b: b, r: c.R, max: 1}
	case 4:
		c.Count("reader.data_with_eof", 1)
		return &chunkReader{b: b, r: c.R, max: 4096, eofWithData: true}
	default:
		c.Count("reader.bytes_reader", 1)
		return bytes.NewReader(b)
	}
}

type chunkReader struct {
	b           []byte
	r           *rand.Rand
	max         int
	eofWithData bool
}

func (cr *chunkReader) Read(p []byte) (int, error) {
	if len(cr.b) == 0 {
		return 0, io.EOF
	}
	if len(p) == 0 {
		return 0, nil
	}
	n := 1 + cr.r.Intn(cr.max)
	if n > len(p) {
		n = len(p)
	}
	if n > len(cr.b) {
		n = len(cr.b)
	}
	copy(p, cr.b[:n])
	cr.b = cr.b[n:]
	if cr.eofWithData && len(cr.b) == 0 {
		return n, io.EOF
	}
	return n, nil
}

// sameRelations: the decoded loops / polygon give the same answers as the originals in relation queries
// with third objects (tiny, medium and large loops around the group centres), in both roles.
func sameRelations(c *mon.Case, tag string, p, q *s2.Polygon, centers []s2.Point, scale float64, det func(string) any) {
	r := c.R
	if len(centers) == 0 {
		centers = []s2.Point{gen.Uniform(r)}
	}
	var ts []*s2.Loop
	for _, ctr := range centers {
		for _, rad := range []float64{scale * 0.01, scale * (0.05 + 0.6*r.Float64()), math.Min(1.5, scale*(1.5+r.Float64()))} {
			if rad < 1e-12 {
				continue
			}
			ts = append(ts, gen.RegularSpec(ctr, 4+r.Intn(5), rad, r.Float64()*7).Loop())
		}
	}
	nl := p.NumLoops()
	if nl > 6 {
		nl = 6
	}
	for _, t := range ts {
		tp := s2.PolygonFromLoops([]*s2.Loop{s2.LoopFromPoints(append([]s2.Point(nil), t.Vertices()...))})
		for k := 0; k < nl; k++ {
			a, b := p.Loop(k), q.Loop(k)
			c.Count("relations.compared", 1)
			if a.Contains(t) != b.Contains(t) || a.Intersects(t) != b.Intersects(t) || t.Contains(a) != t.Contains(b) || t.Intersects(a) != t.Intersects(b) {
				c.Violation(tag+"/loop-relation-differs/wrong-answer", fmt.Sprintf("loop %d (%d vertices): Contains/Intersects with a third loop differ between the original and the decoded loop", k, a.NumVertices()), det(""))
				return
			}
		}
		if p.Contains(tp) != q.Contains(tp) || p.Intersects(tp) != q.Intersects(tp) || tp.Contains(p) != tp.Contains(q) || tp.Intersects(p) != tp.Intersects(q) {
			c.Violation(tag+"/polygon-relation-differs/wrong-answer", "Polygon.Contains/Intersects with a third polygon differ between the original and the decoded polygon", det(""))
			return
		}
	}
	if p.Contains(p) != q.Contains(p) || p.Contains(p) != p.Contains(q) || p.Intersects(p) != q.Intersects(p) {
		c.Violation(tag+"/polygon-relation-differs/wrong-answer", "Contains/Intersects between the original and the decoded polygon differ from those of the original with itself", det(""))
	}
	if !fEq(p.Area(), q.Area()) || !bitsEq(p.Centroid(), q.Centroid()) || !bitsEq(p.CapBound().Center(), q.CapBound().Center()) || !fEq(p.CapBound().Height(), q.CapBound().Height()) {
		c.Violation(tag+"/area-centroid-capbound-differ/wrong-answer", "Area, Centroid or CapBound differ between the original and the decoded polygon", det(""))
	}
	for k := 0; k < nl; k++ {
		a, b := p.Loop(k), q.Loop(k)
		if !a.Equal(b) || !a.BoundaryEqual(b) {
			c.Violation(tag+"/loop-not-Equal/wrong-answer", fmt.Sprintf("loop %d: Equal/BoundaryEqual(original, decoded) is false", k), det(""))
			break
		}
	}
}

var (
	primerOnce  sync.Once
	primerBytes [][]byte
)

// primers returns the encodings (compressed and lossless) of a 200+40-vertex shell with a hole.
func primers() [][]byte {
	primerOnce.Do(func() {
		ctr := s2.PointFromCoords(0.3, -0.5, 0.8)
		for _, snap := range []bool{true, false} {
			sh, ho := gen.RegularSpec(ctr, 200, 0.3, 0.1).Vs, gen.RegularSpec(ctr, 40, 0.1, 0.2).Vs
			if snap {
				sh, _ = gen.SnapToLevel(sh, 30)
				ho, _ = gen.SnapToLevel(ho, 30)
			}
			p := s2.PolygonFromLoops([]*s2.Loop{s2.LoopFromPoints(sh), s2.LoopFromPoints(ho)})
			var b bytes.Buffer
			p.Encode(&b)
			primerBytes = append(primerBytes, b.Bytes())
		}
	})
	return primerBytes
}

func polygon(c *mon.Case) {
	r := c.R
	var loops [][]s2.Point
	nGroups := r.Intn(4) // 0 => empty polygon
	var centers []s2.Point
	level := r.Intn(31)
	pOther, pFree := 0.0, 0.0
	switch r.Intn(5) {
	case 0: // all snapped at one level
	case 1:
		pOther = 0.3 * r.Float64()
	case 2:
		pFree = 0.3 * r.Float64()
	case 3:
		pOther, pFree = 0.3*r.Float64(), 0.3*r.Float64()
	default:
		pFree = 0.5 + 0.5*r.Float64() // mostly arbitrary: the lossless format should win
	}
	cellSize := s2.AvgEdgeMetric.Value(level)
	faceEdge := false
	if r.Intn(200) == 0 { // more than 128 loops nested inside each other (depth no longer fits one varint byte)
		nGroups, level, pOther, pFree = 0, 30, 0, 0
		ctr := gen.RandCenter(r)
		rad := 0.3
		for d := 0; d < 130+r.Intn(40); d++ {
			sp := gen.RegularSpec(ctr, 24+r.Intn(12), rad, r.Float64()*7)
			if vs, ok := gen.SnapToLevel(sp.Vs, 30); ok {
				loops = append(loops, vs)
			}
			rad *= 0.985 // below cos(pi/24): the next ring fits inside the previous one's inscribed circle
		}
		c.Count("polygon.deeply_nested", 1)
	}
	for g := 0; g < nGroups; g++ {
		var ctr s2.Point
		good := false
		for tries := 0; tries < 30 && !good; tries++ {
			ctr = gen.RandCenter(r)
			if r.Intn(3) == 0 {
				ctr = gen.OnPlane(r, 3+r.Intn(6)) // on a face boundary: vertices get extreme (si,ti)
			}
			good = true
			for _, o := range centers {
				if ctr.Distance(o).Radians() < 1.3 {
					good = false
				}
			}
		}
		if !good {
			break
		}
		depth := 1 + r.Intn(3)
		// edges must be several cells long so that snapping keeps the loop star-shaped
		rad := math.Min(0.55, cellSize*gen.LogUniform(r, 4, 200))
		added := false
		for d := 0; d < depth; d++ {
			n := 3 + r.Intn(10)
			if r.Intn(5) == 0 {
				n = 64 + r.Intn(40) // bound is encoded from 64 vertices on
			}
			if 2*math.Pi*rad/float64(n) < 3*cellSize {
				n = int(2 * math.Pi * rad / (3 * cellSize))
			}
			if n < 3 {
				break
			}
			sp := gen.StarLoop(r, ctr, n, rad*0.85, rad)
			vs, rmin, _ := snapSome(r, sp, level, pOther, pFree)
			if vs == nil {
				break
			}
			// one case in three: put an (unsnapped) vertex exactly on / within ulps of the nearest face boundary
			// (s or t equal to 0 or 1) and make it the first vertex of the loop
			if r.Intn(3) == 0 {
				i := r.Intn(len(vs))
				v := vs[i]
				co := []*float64{&v.X, &v.Y, &v.Z}
				// indices of the two largest magnitudes
				a, b := 0, 1
				if math.Abs(*co[b]) > math.Abs(*co[a]) {
					a, b = b, a
				}
				if math.Abs(*co[2]) > math.Abs(*co[a]) {
					a, b = 2, a
				} else if math.Abs(*co[2]) > math.Abs(*co[b]) {
					b = 2
				}
				if math.Abs(*co[a])-math.Abs(*co[b]) < 4*cellSize+1e-9 {
					m := math.Abs(*co[a])
					*co[b] = math.Copysign(m, *co[b])
					w := gen.NudgeUlps(r, s2.Point{Vector: v.Normalize()}, r.Intn(3))
					cand := append([]s2.Point(nil), vs...)
					cand[i] = w
					if ok, rm, _ := gen.StarOK(ctr, cand); ok {
						vs = append(append([]s2.Point{}, cand[i:]...), cand[:i]...)
						rmin = rm
						faceEdge = true
						c.Count("polygon.vertex_on_face_boundary", 1)
					}
				}
			}
			// start the loop at a vertex next to a face boundary when there is one
			for i, v := range vs {
				a := []float64{math.Abs(v.X), math.Abs(v.Y), math.Abs(v.Z)}
				mx := math.Max(a[0], math.Max(a[1], a[2]))
				near := 0
				for _, x := range a {
					if mx-x < 2*cellSize {
						near++
					}
				}
				if near >= 2 && r.Intn(2) == 0 {
					vs = append(append([]s2.Point{}, vs[i:]...), vs[:i]...)
					faceEdge = true
					break
				}
			}
			loops = append(loops, vs)
			added = true
			rad = rmin * 0.7
			if rad < 6*cellSize {
				break
			}
		}
		if added {
			centers = append(centers, ctr)
		}
	}
	var ll []*s2.Loop
	for _, k := range r.Perm(len(loops)) {
		ll = append(ll, s2.LoopFromPoints(append([]s2.Point(nil), loops[k]...)))
	}
	p := s2.PolygonFromLoops(ll)
	var b1 bytes.Buffer
	if err := p.Encode(&b1); err != nil {
		c.Violation("Polygon/Encode/error", "Encode failed: "+err.Error(), nil)
		return
	}
	var b1b bytes.Buffer
	p.Encode(&b1b)
	enc := b1.Bytes()
	det := func(extra string) any {
		return map[string]any{"loops": len(loops), "vertices": p.NumEdges(), "level": level, "p_other_level": pOther, "p_unsnapped": pFree, "bytes": hexb(enc), "what": extra}
	}
	if c.I < 3 {
		c.Sample(det("sample"))
	}
	c.Distinct(uint64(len(enc)), uint64(c.I))
	if !bytes.Equal(enc, b1b.Bytes()) {
		c.Violation("Polygon/Encode/not-deterministic/wrong-answer", "encoding the same polygon twice gives different bytes", det(""))
	}
	version := int(enc[0])
	switch version {
	case 4:
		c.Count("polygon.compressed", 1)
		if len(loops) > 0 {
			c.Count(fmt.Sprintf("polygon.snaplevel.%02d", int(enc[1])), 1)
			// count vertices that are not centres of the chosen level
			off := 0
			for _, l := range loops {
				for _, v := range l {
					if s2.CellFromPoint(v).ID().Parent(int(enc[1])).Point() != v {
						off++
					}
				}
			}
			switch {
			case off == 0:
				c.Count("polygon.compressed.offcentre_none", 1)
			case off == p.NumEdges():
				c.Count("polygon.compressed.offcentre_all", 1)
			default:
				c.Count("polygon.compressed.offcentre_some", 1)
			}
			if faceEdge {
				c.Count("polygon.first_vertex_at_face_boundary", 1)
			}
		}
	case 1:
		c.Count("polygon.lossless", 1)
	default:
		c.Violation("Polygon/Encode/unknown-version", fmt.Sprintf("encoder wrote version %d", version), det(""))
	}
	var q s2.Polygon
	tag := fmt.Sprintf("Polygon/v%d", version)
	if c.I%4 == 3 {
		// the receiver already holds another polygon (a larger one with a hole, decoded from the compressed or
		// the lossless format): the value after Decode is the encoded one all the same
		pr := primers()
		if err := q.Decode(bytes.NewReader(pr[r.Intn(len(pr))])); err != nil {
			c.M.Broken("primer polygon does not decode: " + err.Error())
		}
		_ = q.ContainsPoint(gen.Uniform(r))
		tag += "/into-used-receiver"
		c.Count("polygon.decoded_into_used_receiver", 1)
	}
	if err := q.Decode(src(c, enc)); err != nil {
		c.Violation(fmt.Sprintf("Polygon/v%d/Decode/error-on-own-encoding", version), "Decode rejects the library's own encoding: "+err.Error(), det(""))
		return
	}
	if q.NumLoops() != p.NumLoops() {
		c.Violation(tag+"/loop-count/wrong-answer", fmt.Sprintf("%d loops decoded, %d encoded", q.NumLoops(), p.NumLoops()), det(""))
		return
	}
	for k := 0; k < p.NumLoops(); k++ {
		a, b := p.Loop(k), q.Loop(k)
		if a.NumVertices() != b.NumVertices() {
			c.Violation(tag+"/vertex-count/wrong-answer", fmt.Sprintf("loop %d: %d vertices decoded, %d encoded", k, b.NumVertices(), a.NumVertices()), det(""))
			return
		}
		for i := 0; i < a.NumVertices(); i++ {
			if !bitsEq(a.Vertex(i), b.Vertex(i)) {
				d := a.Vertex(i).Distance(b.Vertex(i)).Radians()
				c.Violation(tag+"/vertex-bits/"+mon.Severity(d), fmt.Sprintf("loop %d vertex %d: decoded %s, encoded %s (%.3g rad apart)", k, i, gen.Hex(b.Vertex(i)), gen.Hex(a.Vertex(i)), d), det(""))
				return
			}
		}
		if a.IsHole() != b.IsHole() {
			c.Violation(tag+"/depth/wrong-answer", fmt.Sprintf("loop %d: IsHole %v decoded, %v encoded", k, b.IsHole(), a.IsHole()), det(""))
		}
		if a.ContainsOrigin() != b.ContainsOrigin() {
			c.Violation(tag+"/origin-inside/wrong-answer", fmt.Sprintf("loop %d: ContainsOrigin %v decoded, %v encoded", k, b.ContainsOrigin(), a.ContainsOrigin()), det(""))
		}
		if !rectEq(a.RectBound(), b.RectBound()) {
			c.Violation(tag+"/loop-bound/wrong-answer", fmt.Sprintf("loop %d: RectBound differs after the round trip", k), det(""))
		}
	}
	if !rectEq(p.RectBound(), q.RectBound()) {
		c.Violation(tag+"/polygon-bound/wrong-answer", "polygon RectBound differs after the round trip", det(""))
	}
	if p.NumEdges() != q.NumEdges() || p.NumChains() != q.NumChains() || p.IsEmpty() != q.IsEmpty() || p.IsFull() != q.IsFull() {
		c.Violation(tag+"/shape-accessors/wrong-answer", "NumEdges/NumChains/IsEmpty/IsFull differ after the round trip", det(""))
	}
	// identical answers on probes
	var probes []s2.Point
	for _, l := range loops {
		probes = append(probes, gen.BoundaryProbes(r, l, 4)...)
	}
	for _, ctr := range centers {
		probes = append(probes, ctr, gen.Near(r, ctr, 0.3*r.Float64()))
	}
	probes = append(probes, gen.Uniform(r), s2.OriginPoint())
	for _, pt := range probes {
		if p.ContainsPoint(pt) != q.ContainsPoint(pt) {
			c.Violation(tag+"/ContainsPoint-differs/wrong-answer", "ContainsPoint differs after the round trip at "+gen.Hex(pt), det(""))
			break
		}
	}
	var b2 bytes.Buffer
	q.Encode(&b2)
	if !bytes.Equal(b2.Bytes(), enc) {
		c.Violation(tag+"/re-encode-differs/wrong-answer", "Encode(Decode(Encode(x))) != Encode(x)", det(hexb(b2.Bytes())))
	}
	if p.NumLoops() > 0 && c.I%8 == 0 {
		sameRelations(c, tag, p, &q, centers, math.Max(p.CapBound().Radius().Radians(), 1e-9), det)
	}
}

// zerosCase: polygons and loops whose vertices are the six axis points (the centres of the face cells) and
// other cell centres lying in a coordinate plane, written with +0 or -0 in the zero coordinates at random: the
// encoder may replace a vertex by "the centre of cell X" only if that reproduces the very same bits.
func zerosCase(c *mon.Case) {
	r := c.R
	sz := func() float64 {
		if r.Intn(2) == 0 {
			return math.Copysign(0, -1)
		}
		return 0
	}
	sg := func() float64 { return float64(1 - 2*r.Intn(2)) }
	vs := []s2.Point{{Vector: r3.Vector{X: sg(), Y: sz(), Z: sz()}}, {Vector: r3.Vector{X: sz(), Y: sg(), Z: sz()}}, {Vector: r3.Vector{X: sz(), Y: sz(), Z: sg()}}}
	if r.Intn(2) == 0 { // a cell centre in a coordinate plane between two of the axis points, with its zero re-signed
		i := r.Intn(3)
		a, b := vs[i], vs[(i+1)%3]
		mid := s2.CellFromPoint(s2.Point{Vector: a.Add(b.Vector).Normalize()}).ID().Parent(1 + r.Intn(29)).Point()
		for _, x := range []*float64{&mid.X, &mid.Y, &mid.Z} {
			if *x == 0 {
				*x = sz()
			}
		}
		if mid != a && mid != b {
			vs = append(vs[:i+1:i+1], append([]s2.Point{mid}, vs[i+1:]...)...)
		}
	}
	if s2.RobustSign(vs[0], vs[1], vs[2]) < 0 {
		for i, j := 0, len(vs)-1; i < j; i, j = i+1, j-1 {
			vs[i], vs[j] = vs[j], vs[i]
		}
	}
	l := s2.LoopFromPoints(append([]s2.Point(nil), vs...))
	if l.Validate() != nil {
		c.Count("zeros.invalid_loop_skipped", 1)
		return
	}
	p := s2.PolygonFromLoops([]*s2.Loop{l})
	var b bytes.Buffer
	if err := p.Encode(&b); err != nil {
		c.Violation("Polygon/Encode/error", "Encode failed: "+err.Error(), nil)
		return
	}
	enc := b.Bytes()
	det := map[string]any{"vertices": gen.HexAll(vs...), "bytes": hexb(enc)}
	c.Distinct(gen.Bits(vs...)...)
	c.Count(fmt.Sprintf("zeros.format_v%d", enc[0]), 1)
	var q s2.Polygon
	if err := q.Decode(src(c, enc)); err != nil {
		c.Violation(fmt.Sprintf("Polygon/v%d/Decode/error-on-own-encoding", enc[0]), err.Error(), det)
		return
	}
	if q.NumLoops() != 1 || q.Loop(0).NumVertices() != p.Loop(0).NumVertices() {
		c.Violation(fmt.Sprintf("Polygon/v%d/vertex-count/wrong-answer", enc[0]), "loop or vertex count differs after the round trip", det)
		return
	}
	for i := 0; i < p.Loop(0).NumVertices(); i++ {
		if a, d := p.Loop(0).Vertex(i), q.Loop(0).Vertex(i); !bitsEq(a, d) {
			c.Violation(fmt.Sprintf("Polygon/v%d/vertex-bits/sign-of-zero", enc[0]), fmt.Sprintf("vertex %d: decoded %s, encoded %s (not the same bits)", i, gen.Hex(d), gen.Hex(a)), det)
			break
		}
	}
	var b2 bytes.Buffer
	q.Encode(&b2)
	if !bytes.Equal(b2.Bytes(), enc) {
		c.Violation(fmt.Sprintf("Polygon/v%d/re-encode-differs/wrong-answer", enc[0]), "Encode(Decode(Encode(x))) != Encode(x)", det)
	}
}

func loop(c *mon.Case) {
	r := c.R
	sp := gen.RandLoopSpec(r, 300)
	vs := sp.Vs
	if r.Intn(4) == 0 {
		vs = gen.Reversed(vs)
	}
	l := s2.LoopFromPoints(append([]s2.Point(nil), vs...))
	var b1 bytes.Buffer
	if err := l.Encode(&b1); err != nil {
		c.Violation("Loop/Encode/error", err.Error(), nil)
		return
	}
	enc := b1.Bytes()
	c.Distinct(uint64(len(enc)), uint64(c.I))
	det := map[string]any{"kind": sp.Kind, "n": len(vs), "bytes": hexb(enc)}
	var q s2.Loop
	if err := q.Decode(src(c, enc)); err != nil {
		c.Violation("Loop/Decode/error-on-own-encoding", err.Error(), det)
		return
	}
	if q.NumVertices() != l.NumVertices() {
		c.Violation("Loop/vertex-count/wrong-answer", "vertex count differs", det)
		return
	}
	for i := 0; i < l.NumVertices(); i++ {
		if !bitsEq(l.Vertex(i), q.Vertex(i)) {
			c.Violation("Loop/vertex-bits/wrong-answer", fmt.Sprintf("vertex %d differs", i), det)
			return
		}
	}
	if l.ContainsOrigin() != q.ContainsOrigin() || l.IsHole() != q.IsHole() || !rectEq(l.RectBound(), q.RectBound()) {
		c.Violation("Loop/flags-or-bound/wrong-answer", "origin flag, depth or bound differs after the round trip", det)
	}
	for _, pt := range append(gen.BoundaryProbes(r, vs, 10), sp.Center, gen.Uniform(r)) {
		if l.ContainsPoint(pt) != q.ContainsPoint(pt) {
			c.Violation("Loop/ContainsPoint-differs/wrong-answer", "ContainsPoint differs after the round trip at "+gen.Hex(pt), det)
			break
		}
	}
	var b2 bytes.Buffer
	q.Encode(&b2)
	if !bytes.Equal(b2.Bytes(), enc) {
		c.Violation("Loop/re-encode-differs/wrong-answer", "Encode(Decode(Encode(x))) != Encode(x)", det)
	}
	if c.I%4 == 0 && len(vs) >= 3 {
		for _, rad := range []float64{sp.RMax * 0.01, sp.RMax * (0.05 + 0.9*r.Float64()), math.Min(1.5, sp.RMax*(1.2+r.Float64()))} {
			if rad < 1e-12 {
				continue
			}
			t := gen.RegularSpec(sp.Center, 4+r.Intn(5), rad, r.Float64()*7).Loop()
			c.Count("relations.compared", 1)
			if l.Contains(t) != q.Contains(t) || l.Intersects(t) != q.Intersects(t) || t.Contains(l) != t.Contains(&q) || t.Intersects(l) != t.Intersects(&q) {
				c.Violation("Loop/loop-relation-differs/wrong-answer", "Contains/Intersects with a third loop differ between the original and the decoded loop", det)
				break
			}
		}
		if !l.Equal(&q) || !fEq(l.Area(), q.Area()) || !bitsEq(l.Centroid(), q.Centroid()) {
			c.Violation("Loop/Equal-area-centroid-differ/wrong-answer", "Equal(original, decoded) is false or Area/Centroid differ", det)
		}
	}
	c.Count("loop.roundtrips", 1)
}

func simple(c *mon.Case) {
	r := c.R
	pt := gen.Uniform(r)
	switch r.Intn(4) {
	case 0:
		pt = gen.Special(r)
	case 1:
		pt = gen.NudgeUlps(r, pt, 2)
	case 2:
		pt = gen.Near(r, gen.Special(r), gen.LogUniform(r, 1e-300, 1e-3))
	}
	rt := func(name string, enc func(*bytes.Buffer) error, dec func([]byte) (func() bool, error)) {
		var b bytes.Buffer
		if err := enc(&b); err != nil {
			c.Violation(name+"/Encode/error", err.Error(), nil)
			return
		}
		var b2 bytes.Buffer
		enc(&b2)
		if !bytes.Equal(b.Bytes(), b2.Bytes()) {
			c.Violation(name+"/Encode/not-deterministic/wrong-answer", "two encodings differ", map[string]any{"bytes": hexb(b.Bytes())})
		}
		same, err := dec(b.Bytes())
		if err != nil {
			c.Violation(name+"/Decode/error-on-own-encoding", err.Error(), map[string]any{"bytes": hexb(b.Bytes())})
			return
		}
		if !same() {
			c.Violation(name+"/round-trip/wrong-answer", "decoded value differs from the encoded one", map[string]any{"bytes": hexb(b.Bytes())})
		}
		c.Count("simple."+name, 1)
	}
	switch k := r.Intn(7); k {
	case 0:
		rt("Point", func(b *bytes.Buffer) error { return pt.Encode(b) }, func(x []byte) (func() bool, error) {
			var q s2.Point
			err := q.Decode(src(c, x))
			return func() bool { return bitsEq(pt, q) }, err
		})
	case 1:
		var cp s2.Cap
		switch r.Intn(4) {
		case 0:
			cp = s2.EmptyCap()
		case 1:
			cp = s2.FullCap()
		default:
			cp = s2.CapFromCenterChordAngle(pt, s1.ChordAngle(r.Float64()*4))
		}
		rt("Cap", func(b *bytes.Buffer) error { return cp.Encode(b) }, func(x []byte) (func() bool, error) {
			var q s2.Cap
			err := q.Decode(src(c, x))
			return func() bool {
				return bitsEq(cp.Center(), q.Center()) && fEq(cp.Height(), q.Height()) && cp.IsEmpty() == q.IsEmpty() && cp.IsFull() == q.IsFull()
			}, err
		})
	case 2:
		rc := s2.RectFromLatLng(s2.LatLngFromPoint(pt)).AddPoint(s2.LatLngFromPoint(gen.Uniform(r)))
		switch r.Intn(5) {
		case 0:
			rc = s2.EmptyRect()
		case 1:
			rc = s2.FullRect()
		case 2:
			rc = s2.Rect{Lat: r1.Interval{Lo: -math.Pi / 2, Hi: r.Float64()}, Lng: s1.IntervalFromEndpoints(r.Float64()*3, -r.Float64()*3)}
		}
		if !rc.IsValid() {
			// RectFromLatLng of a point whose longitude is exactly -pi builds the longitude interval [-pi,-pi],
			// which is not a valid interval (a recorded C19 finding); C09 speaks of valid values only
			c.Count("simple.invalid_rect_skipped", 1)
			return
		}
		rt("Rect", func(b *bytes.Buffer) error { return rc.Encode(b) }, func(x []byte) (func() bool, error) {
			var q s2.Rect
			err := q.Decode(src(c, x))
			return func() bool { return rectEq(rc, q) }, err
		})
	case 3:
		id := gen.RandCellID(r, r.Intn(31))
		rt("CellID", func(b *bytes.Buffer) error { return id.Encode(b) }, func(x []byte) (func() bool, error) {
			var q s2.CellID
			err := q.Decode(src(c, x))
			return func() bool { return q == id }, err
		})
	case 4:
		cell := s2.CellFromCellID(gen.RandCellID(r, r.Intn(31)))
		rt("Cell", func(b *bytes.Buffer) error { return cell.Encode(b) }, func(x []byte) (func() bool, error) {
			var q s2.Cell
			err := q.Decode(src(c, x))
			return func() bool {
				if q.ID() != cell.ID() || q.Level() != cell.Level() || q.Face() != cell.Face() {
					return false
				}
				for k := 0; k < 4; k++ {
					if !bitsEq(q.Vertex(k), cell.Vertex(k)) {
						return false
					}
				}
				return q.BoundUV() == cell.BoundUV()
			}, err
		})
	case 5:
		cu := s2.CellUnion(gen.CellMultiset(r, 30))
		if r.Intn(2) == 0 {
			cu.Normalize()
		}
		c.Distinct(uint64(len(cu)), uint64(c.I))
		rt("CellUnion", func(b *bytes.Buffer) error { return cu.Encode(b) }, func(x []byte) (func() bool, error) {
			var q s2.CellUnion
			err := q.Decode(src(c, x))
			return func() bool {
				if len(q) != len(cu) {
					return false
				}
				for i := range cu {
					if q[i] != cu[i] {
						return false
					}
				}
				return true
			}, err
		})
	default:
		n := r.Intn(40)
		var vs []s2.Point
		for i := 0; i < n; i++ {
			vs = append(vs, gen.Near(r, pt, r.Float64()))
		}
		pl := s2.Polyline(vs)
		c.Distinct(uint64(n), uint64(c.I))
		rt("Polyline", func(b *bytes.Buffer) error { return pl.Encode(b) }, func(x []byte) (func() bool, error) {
			var q s2.Polyline
			err := q.Decode(src(c, x))
			return func() bool {
				if len(q) != len(pl) {
					return false
				}
				for i := range pl {
					if !bitsEq(q[i], pl[i]) {
						return false
					}
				}
				return true
			}, err
		})
	}
}
