package ref

import (
	"math/bits"
	"sort"
)

// Exact set model of cell unions: a set of leaf cells is a sorted list of
// disjoint, non-adjacent half-open intervals of leaf indices along the Hilbert
// curve. A leaf cell id L (odd) has index L>>1; a cell id x with lowest set
// bit lsb covers the indices [(x-lsb)/2, (x+lsb)/2).

type Iv struct{ Lo, Hi uint64 }
type LeafSet []Iv

// MaxLeafIndex is the number of leaf cells on the sphere (6 * 4^30).
const MaxLeafIndex = uint64(6) << 60

func CellRange(id uint64) Iv {
	lsb := id & -id
	return Iv{(id - lsb) >> 1, (id + lsb) >> 1}
}

// ValidCellID: face < 6 and the lowest set bit is at an even position.
func ValidCellID(id uint64) bool {
	return id>>61 < 6 && id&(-id)&0x1555555555555555 != 0
}

func normalizeIvs(v []Iv) LeafSet {
	sort.Slice(v, func(i, j int) bool { return v[i].Lo < v[j].Lo })
	var out LeafSet
	for _, x := range v {
		if x.Lo >= x.Hi {
			continue
		}
		if n := len(out); n > 0 && x.Lo <= out[n-1].Hi {
			if x.Hi > out[n-1].Hi {
				out[n-1].Hi = x.Hi
			}
			continue
		}
		out = append(out, x)
	}
	return out
}

func FromCells(ids []uint64) LeafSet {
	v := make([]Iv, 0, len(ids))
	for _, id := range ids {
		v = append(v, CellRange(id))
	}
	return normalizeIvs(v)
}

func (a LeafSet) Union(b LeafSet) LeafSet {
	v := append(append([]Iv{}, a...), b...)
	return normalizeIvs(v)
}

func (a LeafSet) Intersect(b LeafSet) LeafSet {
	var out LeafSet
	i, j := 0, 0
	for i < len(a) && j < len(b) {
		lo, hi := a[i].Lo, a[i].Hi
		if b[j].Lo > lo {
			lo = b[j].Lo
		}
		if b[j].Hi < hi {
			hi = b[j].Hi
		}
		if lo < hi {
			out = append(out, Iv{lo, hi})
		}
		if a[i].Hi < b[j].Hi {
			i++
		} else {
			j++
		}
	}
	return out
}

func (a LeafSet) Complement() LeafSet {
	var out LeafSet
	prev := uint64(0)
	for _, x := range a {
		if x.Lo > prev {
			out = append(out, Iv{prev, x.Lo})
		}
		prev = x.Hi
	}
	if prev < MaxLeafIndex {
		out = append(out, Iv{prev, MaxLeafIndex})
	}
	return out
}

func (a LeafSet) Diff(b LeafSet) LeafSet { return a.Intersect(b.Complement()) }

func (a LeafSet) Equal(b LeafSet) bool {
	if len(a) != len(b) {
		return false
	}
	for i := range a {
		if a[i] != b[i] {
			return false
		}
	}
	return true
}

func (a LeafSet) Count() uint64 {
	var n uint64
	for _, x := range a {
		n += x.Hi - x.Lo
	}
	return n
}

func (a LeafSet) ContainsSet(b LeafSet) bool { return len(b.Diff(a)) == 0 }
func (a LeafSet) Intersects(b LeafSet) bool  { return len(a.Intersect(b)) > 0 }

// Tile returns the unique minimal sequence of cell ids covering exactly
// [lo,hi): at each position the largest aligned cell (size a power of four,
// at most one face) that fits.
func Tile(lo, hi uint64) []uint64 {
	var out []uint64
	for lo < hi {
		// largest power of 4 dividing lo (at most 4^30), not exceeding hi-lo
		size := uint64(1) << 60
		if lo != 0 {
			tz := bits.TrailingZeros64(lo) &^ 1
			if tz < 60 {
				size = uint64(1) << uint(tz)
			}
		}
		for size > hi-lo {
			size >>= 2
		}
		out = append(out, 2*lo+size)
		lo += size
	}
	return out
}

// Canonical is the unique normalized cell union of the set: sorted,
// non-overlapping, no four mergeable siblings.
func (a LeafSet) Canonical() []uint64 {
	var out []uint64
	for _, x := range a {
		out = append(out, Tile(x.Lo, x.Hi)...)
	}
	return out
}
