package ref

import (
	"math"
	"math/rand"
	"testing"
)

func TestAtan2(t *testing.T) {
	if d := math.Abs(Fl(Pi()) - math.Pi); d != 0 {
		t.Fatalf("pi off by %g", d)
	}
	// pi to 90 digits
	want := "3.14159265358979323846264338327950288419716939937510582097494459230781640628620899862803483"
	if got := Pi().Text('f', 89); got != want {
		t.Fatalf("pi = %s", got)
	}
	r := rand.New(rand.NewSource(1))
	for i := 0; i < 20000; i++ {
		y, x := r.NormFloat64()*math.Pow(10, float64(r.Intn(20)-10)), r.NormFloat64()*math.Pow(10, float64(r.Intn(20)-10))
		got := Fl(Atan2(F(y), F(x)))
		w := math.Atan2(y, x)
		if math.Abs(got-w) > 4e-16*math.Max(math.Abs(w), 1e-300) {
			t.Fatalf("atan2(%g,%g) = %.17g want %.17g", y, x, got, w)
		}
	}
	// octant triangle has area pi/2
	a := TriangleAreaH(HV(V{1, 0, 0}), HV(V{0, 1, 0}), HV(V{0, 0, 1}))
	if math.Abs(Fl(a)-math.Pi/2) > 1e-16 {
		t.Fatalf("octant area %v", a)
	}
}
