package ref

import (
	"math/big"
	"sync"
)

// High-precision arctangent, used by the area / curvature / centroid
// references (C18). All results carry Prec bits; the series are summed until
// the terms drop below 2^-(Prec+10).

func atanSeries(x *big.Float) *big.Float {
	// |x| <= ~0.11
	x2 := nf().Mul(x, x)
	term := nf().Set(x)
	sum := nf().Set(x)
	for k := 1; k < 400; k++ {
		term.Mul(term, x2)
		term.Neg(term)
		t := nf().Quo(term, F(float64(2*k+1)))
		sum.Add(sum, t)
		if t.Sign() == 0 || t.MantExp(nil)-sum.MantExp(nil) < -(Prec+10) {
			break
		}
	}
	return sum
}

var (
	piOnce sync.Once
	piVal  *big.Float
)

// Pi returns pi to Prec bits (Machin's formula).
func Pi() *big.Float {
	piOnce.Do(func() {
		a := atanSeries(nf().Quo(F(1), F(5)))
		b := atanSeries(nf().Quo(F(1), F(239)))
		piVal = nf().Sub(nf().Mul(F(16), a), nf().Mul(F(4), b))
	})
	return piVal
}

// atan01 is atan(x) for 0 <= x <= 1.
func atan01(x *big.Float) *big.Float {
	k := 0
	y := nf().Set(x)
	lim := F(0.1)
	for y.Cmp(lim) > 0 {
		// atan(y) = 2 atan(y / (1 + sqrt(1+y^2)))
		s := nf().Sqrt(nf().Add(F(1), nf().Mul(y, y)))
		y = nf().Quo(y, nf().Add(F(1), s))
		k++
	}
	r := atanSeries(y)
	if k > 0 {
		r.SetMantExp(r, k)
	}
	return r
}

// Atan2 returns atan2(y, x) in (-pi, pi] to ~Prec bits.
func Atan2(y, x *big.Float) *big.Float {
	if y.Sign() == 0 {
		if x.Sign() >= 0 {
			return nf()
		}
		return nf().Set(Pi())
	}
	ay, ax := nf().Abs(y), nf().Abs(x)
	var r *big.Float
	if ay.Cmp(ax) <= 0 {
		r = atan01(nf().Quo(ay, ax))
	} else {
		r = nf().Sub(nf().Quo(Pi(), F(2)), atan01(nf().Quo(ax, ay)))
	}
	if x.Sign() < 0 {
		r = nf().Sub(Pi(), r)
	}
	if y.Sign() < 0 {
		r.Neg(r)
	}
	return r
}

// AngleH is the angle between a and b (any lengths) in high precision.
func AngleH(a, b H) *big.Float {
	c := a.Cross(b)
	return Atan2(Sqrt(c.Norm2()), a.Dot(b))
}

// TriangleAreaH returns the signed area (spherical excess) of the triangle of
// the directions a, b, c: 2*atan2(det, 1 + a.b + b.c + c.a) on the unit
// vectors (Van Oosterom & Strackee). Positive for counter-clockwise triangles.
func TriangleAreaH(a, b, c H) *big.Float {
	ua, ub, uc := a.Unit(), b.Unit(), c.Unit()
	det := ua.Dot(ub.Cross(uc))
	den := nf().Add(F(1), ua.Dot(ub))
	den.Add(den, ub.Dot(uc))
	den.Add(den, uc.Dot(ua))
	r := Atan2(det, den)
	return r.SetMantExp(r, 1)
}

// LoopCurvatureH returns the total turning angle of the closed chain vs in
// high precision. sign(i) must give the orientation (+1/-1) of the triple
// (v[i-1], v[i], v[i+1]) including the resolution of exact degeneracies.
func LoopCurvatureH(vs []V, sign func(a, b, c V) int) *big.Float {
	n := len(vs)
	hs := make([]H, n)
	for i, v := range vs {
		hs[i] = HV(v)
	}
	cr := make([]H, n) // cr[i] = v[i] x v[i+1]
	for i := range hs {
		cr[i] = hs[i].Cross(hs[(i+1)%n])
	}
	sum := nf()
	for i := 0; i < n; i++ {
		p := (i + n - 1) % n
		ang := AngleH(cr[p], cr[i])
		if sign(vs[p], vs[i], vs[(i+1)%n]) < 0 {
			ang.Neg(ang)
		}
		sum.Add(sum, ang)
	}
	return sum
}

// LoopCentroidH returns the integral of position over the region to the left
// of the closed chain vs: 1/2 * sum over edges of angle(a,b) * unit(a x b).
func LoopCentroidH(vs []V) H {
	n := len(vs)
	sum := H{nf(), nf(), nf()}
	for i := 0; i < n; i++ {
		a, b := HV(vs[i]), HV(vs[(i+1)%n])
		c := a.Cross(b)
		l := Sqrt(c.Norm2())
		if l.Sign() == 0 {
			continue
		}
		th := Atan2(l, a.Dot(b))
		k := nf().Quo(th, l)
		k.SetMantExp(k, -1)
		sum = sum.Add(c.Scale(k))
	}
	return sum
}
