package ref

import (
	"math"
	"math/big"
)

// Prec is the mantissa length of the high-precision (not exact) layer.
const Prec = 320

// H is a high-precision 3-vector.
type H [3]*big.Float

func F(x float64) *big.Float { return new(big.Float).SetPrec(Prec).SetFloat64(x) }
func nf() *big.Float         { return new(big.Float).SetPrec(Prec) }

func HV(v V) H { return H{F(v[0]), F(v[1]), F(v[2])} }

func (a H) Dot(b H) *big.Float {
	s := nf().Mul(a[0], b[0])
	s.Add(s, nf().Mul(a[1], b[1]))
	s.Add(s, nf().Mul(a[2], b[2]))
	return s
}

func (a H) Cross(b H) H {
	return H{
		nf().Sub(nf().Mul(a[1], b[2]), nf().Mul(a[2], b[1])),
		nf().Sub(nf().Mul(a[2], b[0]), nf().Mul(a[0], b[2])),
		nf().Sub(nf().Mul(a[0], b[1]), nf().Mul(a[1], b[0])),
	}
}

func (a H) Sub(b H) H         { return H{nf().Sub(a[0], b[0]), nf().Sub(a[1], b[1]), nf().Sub(a[2], b[2])} }
func (a H) Add(b H) H         { return H{nf().Add(a[0], b[0]), nf().Add(a[1], b[1]), nf().Add(a[2], b[2])} }
func (a H) Neg() H            { return H{nf().Neg(a[0]), nf().Neg(a[1]), nf().Neg(a[2])} }
func (a H) Norm2() *big.Float { return a.Dot(a) }
func (a H) Scale(s *big.Float) H {
	return H{nf().Mul(a[0], s), nf().Mul(a[1], s), nf().Mul(a[2], s)}
}
func (a H) IsZero() bool { return a[0].Sign() == 0 && a[1].Sign() == 0 && a[2].Sign() == 0 }

func Sqrt(x *big.Float) *big.Float {
	if x.Sign() <= 0 {
		return nf()
	}
	return nf().Sqrt(x)
}

// Unit returns a / |a| (zero vector stays zero).
func (a H) Unit() H {
	n2 := a.Norm2()
	if n2.Sign() == 0 {
		return a
	}
	// rescale first to avoid exponent trouble: big.Float has a huge exponent range, none needed
	inv := nf().Quo(F(1), Sqrt(n2))
	return a.Scale(inv)
}

func (a H) V() V {
	x, _ := a[0].Float64()
	y, _ := a[1].Float64()
	z, _ := a[2].Float64()
	return V{x, y, z}
}

func Fl(x *big.Float) float64 { f, _ := x.Float64(); return f }

// Chord2 is the squared chord length between the unit-normalised directions
// of a and b (high precision). For tiny separations it is computed from the
// cross product to avoid cancellation.
func Chord2(a, b H) *big.Float {
	ua, ub := a.Unit(), b.Unit()
	d := ua.Sub(ub)
	return d.Norm2()
}

// AngleFromChord2 converts a squared chord length to an angle in float64
// (the conversion itself is only used for reporting and for bounds that are
// documented in radians; it is accurate to ~1e-16 relative).
func AngleFromChord2(c2 float64) float64 {
	if c2 <= 0 {
		return 0
	}
	if c2 >= 4 {
		return math.Pi
	}
	return 2 * math.Asin(math.Sqrt(c2)/2)
}

// Angle returns the angle between a and b in float64, computed in high
// precision through atan2(|a x b|, a.b) so it is accurate at 0 and pi.
func Angle(a, b H) float64 {
	c := a.Cross(b)
	s := Sqrt(c.Norm2())
	d := a.Dot(b)
	// scale both to float64 range relative to each other
	if s.Sign() == 0 && d.Sign() == 0 {
		return 0
	}
	// normalise by the larger magnitude
	m := nf().Abs(d)
	if s.Cmp(m) > 0 {
		m = s
	}
	sf := Fl(nf().Quo(s, m))
	df := Fl(nf().Quo(d, m))
	return math.Atan2(sf, df)
}

// ClosestOnSegment returns the point of the geodesic segment ab (a != -b)
// closest to x, as a unit high-precision vector, and whether the closest
// point is interior to the segment.
func ClosestOnSegment(x, a, b H) (H, bool) {
	ua, ub, ux := a.Unit(), b.Unit(), x.Unit()
	n := ua.Cross(ub)
	if n.IsZero() { // degenerate edge
		return ua, false
	}
	// projection of x onto the plane of the great circle
	nn := n.Norm2()
	t := nf().Quo(ux.Dot(n), nn)
	p := ux.Sub(n.Scale(t))
	if p.IsZero() || p.Norm2().Cmp(new(big.Float).SetMantExp(F(1), -400)) < 0 {
		// x is (to within 2^-200) a pole of the great circle: every point of the circle is equidistant,
		// and the direction of the rounding residue p is meaningless
		return ua, true
	}
	p = p.Unit()
	// p is within the segment iff (a x p).n >= 0 and (p x b).n >= 0
	if ua.Cross(p).Dot(n).Sign() >= 0 && p.Cross(ub).Dot(n).Sign() >= 0 {
		return p, true
	}
	if Chord2(ux, ua).Cmp(Chord2(ux, ub)) <= 0 {
		return ua, false
	}
	return ub, false
}

// DistChord2ToSegment returns the squared chord length from x to the geodesic
// segment ab.
func DistChord2ToSegment(x, a, b H) *big.Float {
	p, _ := ClosestOnSegment(x, a, b)
	return Chord2(x, p)
}

// IntersectionPoint returns the unit vector of the intersection of the great
// circles through (a0,a1) and (b0,b1) that lies on the side of the sum of the
// endpoints; ok is false when the circles coincide.
func IntersectionPoint(a0, a1, b0, b1 V) (H, bool) {
	l, _ := Lift(a0, a1, b0, b1)
	na := CrossI(l[0], l[1])
	nb := CrossI(l[2], l[3])
	x := CrossI(na, nb) // exact direction
	if x[0].Sign() == 0 && x[1].Sign() == 0 && x[2].Sign() == 0 {
		return H{}, false
	}
	h := H{nf().SetInt(x[0]), nf().SetInt(x[1]), nf().SetInt(x[2])}
	// orient towards the edges: positive dot with (a0+a1)+(b0+b1)
	s := HV(a0).Add(HV(a1)).Add(HV(b0)).Add(HV(b1))
	if h.Dot(s).Sign() < 0 {
		h = h.Neg()
	}
	// scale down before normalising (components may be astronomically large integers; big.Float copes)
	return h.Unit(), true
}
