// Package ref is the trusted reference kernel of the monitors. It is written
// from the mathematical definitions and shares no code with golang/geo: exact
// integer arithmetic on float64 inputs, a derived (not copied) symbolic
// perturbation, high-precision geometry, and exact set models.
package ref

import (
	"math"
	"math/big"
)

// V is a float64 3-vector (deliberately not r3.Vector: the kernel does not
// depend on the library under test).
type V [3]float64

// decompose returns integer mantissa and exponent with f == m * 2^e exactly.
func decompose(f float64) (m int64, e int) {
	if f == 0 {
		return 0, 0
	}
	fr, ex := math.Frexp(f) // f = fr * 2^ex, 0.5 <= |fr| < 1
	m = int64(fr * (1 << 53))
	return m, ex - 53
}

// Lift converts all vectors to big.Int triples on one common binary exponent.
// Any polynomial that is homogeneous in the total set of coordinates keeps its
// sign. It returns the common exponent too (value = int * 2^exp).
func Lift(vs ...V) ([][3]*big.Int, int) {
	minE := math.MaxInt32
	type me struct {
		m int64
		e int
	}
	tmp := make([][3]me, len(vs))
	for i, v := range vs {
		for k := 0; k < 3; k++ {
			m, e := decompose(v[k])
			tmp[i][k] = me{m, e}
			if m != 0 && e < minE {
				minE = e
			}
		}
	}
	if minE == math.MaxInt32 {
		minE = 0
	}
	out := make([][3]*big.Int, len(vs))
	for i := range vs {
		for k := 0; k < 3; k++ {
			b := big.NewInt(tmp[i][k].m)
			if tmp[i][k].m != 0 {
				b.Lsh(b, uint(tmp[i][k].e-minE))
			}
			out[i][k] = b
		}
	}
	return out, minE
}

func mul(a, b *big.Int) *big.Int { return new(big.Int).Mul(a, b) }
func sub(a, b *big.Int) *big.Int { return new(big.Int).Sub(a, b) }
func add(a, b *big.Int) *big.Int { return new(big.Int).Add(a, b) }

// CrossI is the exact cross product of two lifted vectors.
func CrossI(a, b [3]*big.Int) [3]*big.Int {
	return [3]*big.Int{
		sub(mul(a[1], b[2]), mul(a[2], b[1])),
		sub(mul(a[2], b[0]), mul(a[0], b[2])),
		sub(mul(a[0], b[1]), mul(a[1], b[0])),
	}
}

// DotI is the exact dot product of two lifted vectors.
func DotI(a, b [3]*big.Int) *big.Int {
	return add(add(mul(a[0], b[0]), mul(a[1], b[1])), mul(a[2], b[2]))
}

// DetI is the exact determinant a . (b x c).
func DetI(a, b, c [3]*big.Int) *big.Int { return DotI(a, CrossI(b, c)) }

// DetSign is the sign of the exact 3x3 determinant of the float64 vectors.
func DetSign(a, b, c V) int {
	l, _ := Lift(a, b, c)
	return DetI(l[0], l[1], l[2]).Sign()
}

// DotSign is the sign of the exact dot product.
func DotSign(a, b V) int {
	l, _ := Lift(a, b)
	return DotI(l[0], l[1]).Sign()
}

// Cmp orders vectors lexicographically (X, then Y, then Z).
func Cmp(a, b V) int {
	for k := 0; k < 3; k++ {
		if a[k] < b[k] {
			return -1
		}
		if a[k] > b[k] {
			return 1
		}
	}
	return 0
}

// SoSSign is the orientation of (a,b,c) under the documented perturbation
// model: every point p has its own infinitesimal perturbation per coordinate;
// lexicographically smaller points have (much) larger perturbations, inside a
// point Z > Y > X, and every perturbation is smaller than the product of all
// larger ones. Writing the perturbation of coordinate k of the point of
// lexicographic rank i as eps^(2^(3i + (2-k))), the determinant of the
// perturbed points is a polynomial in eps whose monomial exponents are sums
// of distinct powers of two; its sign is the sign of the coefficient with the
// smallest exponent. The polynomial is expanded term by term from the Leibniz
// formula — independent of the 13-case table in the library.
//
// Returns 0 iff two of the points are identical.
func SoSSign(a, b, c V) int {
	if a == b || b == c || a == c {
		return 0
	}
	pts := []V{a, b, c}
	perm := 1
	// sort by lexicographic order, tracking permutation sign
	for i := 0; i < 3; i++ {
		for j := 0; j+1 < 3-i; j++ {
			if Cmp(pts[j], pts[j+1]) > 0 {
				pts[j], pts[j+1] = pts[j+1], pts[j]
				perm = -perm
			}
		}
	}
	l, _ := Lift(pts...)
	return perm * sosSorted(l)
}

var perms3 = [6][3]int{{0, 1, 2}, {1, 2, 0}, {2, 0, 1}, {0, 2, 1}, {2, 1, 0}, {1, 0, 2}}
var permSign3 = [6]int64{1, 1, 1, -1, -1, -1}

// sosSorted: rows are already in increasing lexicographic order.
func sosSorted(x [][3]*big.Int) int {
	coef := map[uint32]*big.Int{}
	for pi, p := range perms3 {
		for S := 0; S < 8; S++ { // subset of rows that contribute their perturbation
			w := uint32(0)
			t := big.NewInt(permSign3[pi])
			for r := 0; r < 3; r++ {
				col := p[r]
				if S&(1<<r) != 0 {
					w |= 1 << uint(3*r+(2-col)) // exponent 2^(3r + (2-col))
				} else {
					t.Mul(t, x[r][col])
				}
			}
			if c, ok := coef[w]; ok {
				c.Add(c, t)
			} else {
				coef[w] = t
			}
		}
	}
	// smallest exponent (== numerically smallest weight as a binary number) first
	best := uint32(math.MaxUint32)
	sign := 0
	for w, c := range coef {
		if c.Sign() != 0 && w < best {
			best, sign = w, c.Sign()
		}
	}
	return sign
}

// Orient is the reference orientation: the exact determinant sign when it is
// non-zero, otherwise the symbolic one.
func Orient(a, b, c V) int {
	// Float filter, sound with a wide margin: for vectors of norm <= sqrt(2)
	// the rounding error of the float64 determinant is below 2e-14, so a value
	// beyond 1e-12 has the exact sign. (C02 checks this filter against the exact
	// path on every triple it sees; C02 itself never uses the filter.)
	if IsUnitish(a) && IsUnitish(b) && IsUnitish(c) {
		det := a[0]*(b[1]*c[2]-b[2]*c[1]) + a[1]*(b[2]*c[0]-b[0]*c[2]) + a[2]*(b[0]*c[1]-b[1]*c[0])
		if det > 1e-12 {
			return 1
		}
		if det < -1e-12 {
			return -1
		}
	}
	return OrientExact(a, b, c)
}

// OrientExact never uses floating point.
func OrientExact(a, b, c V) int {
	if s := DetSign(a, b, c); s != 0 {
		if a == b || b == c || a == c { // cannot happen (det would be 0), kept for clarity
			return 0
		}
		return s
	}
	return SoSSign(a, b, c)
}

// norm2I returns |a|^2 exactly.
func norm2I(a [3]*big.Int) *big.Int { return DotI(a, a) }

// CompareDistancesExact returns the sign of dist(x,a) - dist(x,b) for the
// points projected onto the unit sphere, 0 when exactly equal.
func CompareDistancesExact(x, a, b V) int {
	l, _ := Lift(x, a, b)
	p := DotI(l[0], l[1]) // ~ cos(xa)|x||a|
	q := DotI(l[0], l[2])
	// compare p/|a| with q/|b| ; larger cosine = smaller distance
	ps, qs := p.Sign(), q.Sign()
	if ps != qs {
		if ps > qs {
			return -1
		}
		return 1
	}
	if ps == 0 {
		return 0
	}
	lhs := mul(mul(p, p), norm2I(l[2])) // p^2 |b|^2
	rhs := mul(mul(q, q), norm2I(l[1])) // q^2 |a|^2
	c := lhs.Cmp(rhs)                   // >0 : |p|/|a| > |q|/|b|
	// if both positive: larger |.| = larger cosine = smaller distance
	return -ps * c
}

// CompareDistanceExact returns the sign of dist(x,y) - r where r is given as a
// squared chord length r2 (float64), points projected to the unit sphere.
func CompareDistanceExact(x, y V, r2 float64) int {
	// cos(xy) vs cosR = 1 - r2/2. Use rationals: scale by 2: 2cos vs 2 - r2.
	l, e := Lift(x, y)
	_ = e
	p := DotI(l[0], l[1]) // = cos * |x||y| (in lifted units, which cancel below)
	m, me := decompose(r2)
	// t = 2 - r2 = (2*2^-me - m) * 2^me   (as integer times 2^me); sign/scale only matter via ratio
	var t *big.Int
	var tExp int
	if m == 0 {
		t, tExp = big.NewInt(2), 0
	} else if me <= 1 {
		t = sub(new(big.Int).Lsh(big.NewInt(1), uint(1-me)), big.NewInt(m))
		tExp = me
	} else {
		t = sub(big.NewInt(2), new(big.Int).Lsh(big.NewInt(m), uint(me)))
		tExp = 0
	}
	// Compare 2p / (|x||y|) with t*2^tExp. Signs first.
	ps, ts := p.Sign(), t.Sign()
	if ps != ts {
		if ps > ts {
			return -1
		}
		return 1
	}
	if ps == 0 {
		return 0
	}
	// compare 4p^2 with t^2 * 2^(2 tExp) * |x|^2|y|^2
	lhs := new(big.Int).Lsh(mul(p, p), 2)
	rhs := mul(mul(t, t), mul(norm2I(l[0]), norm2I(l[1])))
	if tExp >= 0 {
		rhs.Lsh(rhs, uint(2*tExp))
	} else {
		lhs.Lsh(lhs, uint(-2*tExp))
	}
	c := lhs.Cmp(rhs) // >0: |cos| > |cosR|
	return -ps * c
}

// IsUnitish reports |v|^2 within [0.5, 2]: all callers feed unit-length-ish points.
func IsUnitish(v V) bool {
	n := v[0]*v[0] + v[1]*v[1] + v[2]*v[2]
	return n > 0.5 && n < 2
}

// Antipodal reports whether a and b have exactly opposite directions (they
// project to antipodal points of the sphere), so that no geodesic edge ab exists.
func Antipodal(a, b V) bool {
	l, _ := Lift(a, b)
	x := CrossI(l[0], l[1])
	if x[0].Sign() != 0 || x[1].Sign() != 0 || x[2].Sign() != 0 {
		return false
	}
	return DotI(l[0], l[1]).Sign() < 0
}
