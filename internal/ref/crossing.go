package ref

// Crossing results, numerically identical to the library's Crossing type.
const (
	Cross      = 0
	MaybeCross = 1
	DoNotCross = 2
)

// CrossingSign is the four-orientation criterion in exact arithmetic with the
// symbolic perturbation: AB and CD cross at a point interior to both iff the
// triangles ACB, CBD, BDA, DAC all have the same (non-zero) orientation.
// Shared endpoints give MaybeCross; degenerate edges otherwise DoNotCross.
func CrossingSign(a, b, c, d V) int {
	if a == c || a == d || b == c || b == d {
		return MaybeCross
	}
	if a == b || c == d {
		return DoNotCross
	}
	acb := Orient(a, c, b)
	if Orient(b, d, a) != acb {
		return DoNotCross
	}
	if Orient(c, b, d) != acb {
		return DoNotCross
	}
	if Orient(d, a, c) != acb {
		return DoNotCross
	}
	return Cross
}

// OrderedCCW: are a, b, c encountered in that order in a CCW sweep around o
// (the documented definition, on reference orientations).
func OrderedCCW(a, b, c, o V) bool {
	sum := 0
	if Orient(b, o, a) != -1 {
		sum++
	}
	if Orient(c, o, b) != -1 {
		sum++
	}
	if Orient(a, o, c) == 1 {
		sum++
	}
	return sum >= 2
}

// RefDir supplies the fixed reference direction of a vertex (a definition:
// the monitors pass the library's Ortho so that both sides sweep from the same
// direction).
type RefDir func(V) V

// VertexCrossing is the documented rule: with a shared vertex O, AB "crosses"
// CD iff AB is encountered after CD in a CCW sweep around O starting from the
// reference direction.
func VertexCrossing(a, b, c, d V, rd RefDir) bool {
	if a == b || c == d {
		return false
	}
	switch {
	case a == c:
		return b == d || OrderedCCW(rd(a), d, b, a)
	case b == d:
		return OrderedCCW(rd(b), c, a, b)
	case a == d:
		return b == c || OrderedCCW(rd(a), c, b, a)
	case b == c:
		return OrderedCCW(rd(b), d, a, b)
	}
	return false
}

func EdgeOrVertexCrossing(a, b, c, d V, rd RefDir) bool {
	switch CrossingSign(a, b, c, d) {
	case Cross:
		return true
	case DoNotCross:
		return false
	}
	return VertexCrossing(a, b, c, d, rd)
}

// AngleContainsVertex: semi-open vertex rule (documented): the angle ABC
// contains its vertex B iff NOT OrderedCCW(refdir(b), c, a, b).
func AngleContainsVertex(a, b, c V, rd RefDir) bool {
	return !OrderedCCW(rd(b), c, a, b)
}

// LoopModel is the reference point-in-loop oracle: parity of reference
// crossings of the segment origin->p with every loop edge, the origin's own
// status being fixed by the vertex rule at vertex 1.
type LoopModel struct {
	Vs           []V
	Origin       V
	OriginInside bool
	rd           RefDir
}

func NewLoopModel(vs []V, origin V, rd RefDir) *LoopModel {
	m := &LoopModel{Vs: vs, Origin: origin, rd: rd}
	if len(vs) < 3 {
		return m
	}
	v1Inside := vs[0] != vs[1] && vs[2] != vs[1] && AngleContainsVertex(vs[0], vs[1], vs[2], rd)
	if v1Inside != m.Contains(vs[1]) {
		m.OriginInside = true
	}
	return m
}

func (m *LoopModel) Contains(p V) bool {
	in := m.OriginInside
	n := len(m.Vs)
	for i := 0; i < n; i++ {
		if EdgeOrVertexCrossing(m.Origin, p, m.Vs[i], m.Vs[(i+1)%n], m.rd) {
			in = !in
		}
	}
	return in
}

// Crossings counts reference crossings (for parity reporting).
func (m *LoopModel) Crossings(p V) int {
	k := 0
	n := len(m.Vs)
	for i := 0; i < n; i++ {
		if EdgeOrVertexCrossing(m.Origin, p, m.Vs[i], m.Vs[(i+1)%n], m.rd) {
			k++
		}
	}
	return k
}
