package ref

import "math"

// Error-free transformations (Dekker/Knuth with FMA). Used only to *steer*
// searches cheaply; every verdict is confirmed with exact arithmetic.

func twoSum(a, b float64) (s, e float64) {
	s = a + b
	bb := s - a
	e = (a - (s - bb)) + (b - bb)
	return
}

func twoProd(a, b float64) (p, e float64) {
	p = a * b
	e = math.FMA(a, b, -p)
	return
}

// DetDD returns the determinant a.(b x c) evaluated with roughly twice the
// float64 precision (absolute error ~1e-31 for unit vectors).
func DetDD(a, b, c V) float64 {
	var hi, lo float64
	add := func(x float64) {
		var e float64
		hi, e = twoSum(hi, x)
		lo += e
	}
	term := func(sign, x, y, z float64) {
		p, pe := twoProd(x, y)
		q, qe := twoProd(p, z)
		add(sign * q)
		add(sign * qe)
		add(sign * pe * z)
	}
	term(1, a[0], b[1], c[2])
	term(-1, a[0], b[2], c[1])
	term(1, a[1], b[2], c[0])
	term(-1, a[1], b[0], c[2])
	term(1, a[2], b[0], c[1])
	term(-1, a[2], b[1], c[0])
	return hi + lo
}
