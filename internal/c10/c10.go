// Package c10 monitors C10: bounds are conservative — nothing contained lies
// outside its bound.
package c10

import (
	"math/big"
	"bytes"
	"fmt"
	"math"
	"math/rand"

	"github.com/golang/geo/r1"
	"github.com/golang/geo/s1"
	"github.com/golang/geo/r3"
	"github.com/golang/geo/s2"

	"verif/internal/gen"
	"verif/internal/mon"
	"verif/internal/ref"
)

var origin = gen.V(s2.OriginPoint())

func Run(m *mon.M) {
	m.Rule = "loops (star-shaped, regular, snapped; through/within 1e-9..1e-300 of a pole; enclosing a pole; spanning ~180 degrees of longitude; tiny and > hemisphere), polygons with holes, polylines with long and polar edges, caps, lat-lng rectangles (also wider than 180 degrees and across the antimeridian), cells, cell unions, and decoded (compressed) polygons; probes: every vertex, dense samples along every edge (incl. the highest-latitude point), points the region contains by its exact semantics within +-3 ulps of the boundary. A (region, probe) pair is non-trivial and distinct when new AND the probe is a vertex, an edge sample, or within 1e-12 of the region's boundary"
	m.Assumptions = []string{"containment by the region's exact semantics: internal/ref crossing parity for loops/polygons, the type's own closed membership test for caps and rectangles, the closed quadrilateral of the vertices for cells", "sampling along edges can only under-estimate what a bound must contain"}
	m.Require("loop.regions", 2000)
	m.Require("loop.polar", 300)
	m.Require("rect.wide", 300)
	m.Require("probes.checked", 200000)
	m.Require("hull.checked", 1000)
	m.Require("subregion.pairs", 1000)
	m.Stream("loop", m.N(6000, 600000), loopCase)
	m.Stream("polyline", m.N(4000, 300000), polylineCase)
	m.Stream("simple", m.N(30000, 2000000), simpleCase)
	m.Stream("full", m.N(2000, 100000), fullCase)
	m.Stream("hull", m.N(4000, 300000), hullCase)
	m.Stream("subregion", m.N(4000, 300000), subregionCase)
}

type bounds struct {
	rect  s2.Rect
	cap   s2.Cap
	cells []s2.CellID
	// granularity of the region's own representation in radians (a cap stores a squared chord length, which
	// resolves its angular radius only to ~2e-15/sin(radius)); added to the representation-level limit
	granularity float64
}

// checkProbe asserts that one contained point lies in every bound.
//
// A miss is classified before it is reported, so that the fingerprint says
// what kind of miss it is:
//   - representation-level: the point is outside by no more than the rounding
//     of the membership test itself (4e-15 rad; for caps additionally the
//     granularity of the squared-chord representation, 2e-15/sin(radius));
//   - near-full-cap: the cap's radius is within 1e-6 rad of 180 degrees, where
//     the squared-chord representation resolves only ~2e-8 rad;
//   - nearly-antipodal-edge: the probe lies on an edge whose endpoints are
//     within 0.5 rad of antipodal (but not within 0.96e-15, where the bounder switches to the full rectangle) and the miss is below 1e-14/|a+b| (this
//     class was a recorded finding until its cause, an asin near 1 in RectBounder, was repaired in /repo;
//     it is kept so that a recurrence has its own fingerprint);
//   - beyond-representation: everything else.
// fullCase: the full region reached in every way the library offers - the full loop and polygon, the
// complement of the empty polygon (Invert), a loop or polygon inverted twice over the full one, the full cap and
// rectangle: every point of the sphere is a point of the region, so every bound must contain every probe.
func fullCase(c *mon.Case) {
	r := c.R
	variants := map[string]bounds{}
	add := func(name string, rg s2.Region) {
		variants[name] = bounds{rect: rg.RectBound(), cap: rg.CapBound(), cells: rg.CellUnionBound()}
	}
	switch c.I % 6 {
	case 0:
		p := s2.PolygonFromLoops(nil)
		p.Invert()
		add("Polygon(empty).Invert()", p)
	case 1:
		p := s2.FullPolygon()
		p.Invert()
		p.Invert()
		add("FullPolygon.Invert().Invert()", p)
	case 2:
		l := s2.EmptyLoop()
		l.Invert()
		add("EmptyLoop.Invert()", l)
		add("PolygonFromLoops(inverted empty loop)", s2.PolygonFromLoops([]*s2.Loop{l}))
	case 3:
		add("FullLoop", s2.FullLoop())
		add("FullPolygon", s2.FullPolygon())
	case 4:
		// a polygon that was used (queried) as a non-empty one, emptied by decoding an empty polygon into it is
		// C15's business; here: the complement of a polygon decoded from the encoding of the empty polygon
		var buf bytes.Buffer
		s2.PolygonFromLoops(nil).Encode(&buf)
		var q s2.Polygon
		if q.Decode(bytes.NewReader(buf.Bytes())) == nil {
			q.Invert()
			add("decoded empty polygon.Invert()", &q)
		}
	default:
		add("FullCap", s2.FullCap())
		add("FullRect", s2.FullRect())
	}
	det := func() any { return map[string]any{"case": c.I % 6} }
	for name, b := range variants {
		for k := 0; k < 6; k++ {
			p := gen.Uniform(r)
			if k == 0 {
				p = gen.Special(r)
			}
			checkProbe(c, name, b, p, "any-point-of-the-full-region", det)
		}
		c.Count("full.regions", 1)
	}
}

func checkProbe(c *mon.Case, what string, b bounds, p s2.Point, kind string, det func() any) {
	checkProbeEdge(c, what, b, p, kind, 2, 0, det)
}

// antiNorm is |a+b| of the edge the probe was taken from (2 when not applicable).
// perr is the distance (320-bit) from the probe to the nearest true point of the region when the probe is a
// rounded sample of an edge; a miss counts only by the amount it exceeds perr (the bound then misses that
// true point), and is dropped if it does not.
func checkProbeEdge(c *mon.Case, what string, b bounds, p s2.Point, kind string, antiNorm, perr float64, det func() any) {
	c.Count("probes.checked", 1)
	ll := s2.LatLngFromPoint(p)
	if !b.rect.ContainsLatLng(ll) {
		ex := math.Max(math.Max(b.rect.Lat.Lo-ll.Lat.Radians(), ll.Lat.Radians()-b.rect.Lat.Hi), 0)
		if ex == 0 { // longitude miss: distance to the nearer end of the interval
			d1 := math.Abs(math.Remainder(float64(ll.Lng)-b.rect.Lng.Lo, 2*math.Pi))
			d2 := math.Abs(math.Remainder(float64(ll.Lng)-b.rect.Lng.Hi, 2*math.Pi))
			ex = math.Min(d1, d2) * math.Cos(ll.Lat.Radians()) // as a distance on the sphere
		}
		ex -= perr
		if ex <= 0 {
			c.Count("probes.miss_within_probe_error", 1)
			goto capCheck
		}
		class := "beyond-representation"
		switch {
		case ex <= 4e-15+b.granularity:
			class = "representation-level"
		case antiNorm < 0.5 && antiNorm >= 0.96e-15 && ex <= 1e-14/antiNorm: // (the bounder switches to the full rectangle when |(a-b)x(a+b)| = 2|a+b| is below 1.91346e-15)
			class = "nearly-antipodal-edge"
		}
		c.Max("RectBound.max_miss_rad."+class, ex)
		c.Violation("RectBound/"+class+"/"+what+"/misses-"+kind, fmt.Sprintf("RectBound %v does not contain the lat/lng (%.17g, %.17g) of a %s of the region (outside by %.3g rad)", b.rect, ll.Lat.Radians(), ll.Lng.Radians(), kind, ex), det())
	}
capCheck:
	if !b.cap.ContainsPoint(p) {
		rad := ref.AngleFromChord2(2 * b.cap.Height())
		ex := ref.Angle(ref.HV(gen.V(b.cap.Center())), ref.HV(gen.V(p))) - rad - perr
		if ex <= 0 {
			c.Count("probes.miss_within_probe_error", 1)
			goto cellCheck
		}
		class := "beyond-representation"
		switch {
		case rad > math.Pi-1e-6 && ex <= 1e-7:
			class = "near-full-cap"
		case ex <= 4e-15+2e-15/math.Max(math.Sin(rad), 1e-9):
			class = "representation-level"
		case antiNorm < 0.5 && antiNorm >= 0.96e-15 && ex <= 1e-14/antiNorm: // (the bounder switches to the full rectangle when |(a-b)x(a+b)| = 2|a+b| is below 1.91346e-15)
			class = "nearly-antipodal-edge" // cap bounds of loops and polylines are derived from the rectangle bound
		}
		c.Max("CapBound.max_miss_rad."+class, ex)
		c.Violation("CapBound/"+class+"/"+what+"/misses-"+kind, fmt.Sprintf("CapBound (radius %.6g rad) does not contain a %s of the region: outside by %.3g rad", rad, kind, ex), det())
	}
cellCheck:
	if b.cells != nil {
		leaf := s2.CellFromPoint(p).ID()
		ok := false
		for _, id := range b.cells {
			if id.Contains(leaf) || s2.CellFromCellID(id).ContainsPoint(p) {
				ok = true
				break
			}
		}
		if !ok {
			c.Violation("CellUnionBound/"+what+"/misses-"+kind+"/wrong-answer", fmt.Sprintf("no cell of CellUnionBound contains a %s of the region", kind), det())
		}
	}
}

// edgeSamples: points along the geodesic ab including (an approximation of) its highest/lowest latitude point.
func edgeSamples(r *rand.Rand, a, b s2.Point) (out []s2.Point) {
	defer func() { out = finite(out) }()
	return edgeSamplesRaw(r, a, b)
}

func finite(ps []s2.Point) []s2.Point {
	k := 0
	for _, p := range ps {
		if n := p.Norm2(); n > 0.99 && n < 1.01 {
			ps[k] = p
			k++
		}
	}
	return ps[:k]
}

func edgeSamplesRaw(r *rand.Rand, a, b s2.Point) []s2.Point {
	if a == b || ref.Antipodal(gen.V(a), gen.V(b)) || a.Sub(b.Vector).Norm() < 1e-15 {
		return nil // (interpolation along edges shorter than 1e-15 rad is outside C17's domain too)
	}
	var ps []s2.Point
	for _, t := range []float64{0.5, 0.25, 0.75, r.Float64(), r.Float64(), 1e-9, 1 - 1e-9} {
		ps = append(ps, s2.Interpolate(t, a, b))
	}
	// extreme latitude of the great circle: the point of the circle closest to the pole
	// (computed with 320 bits: pole - n (pole.n)/(n.n) cancels badly in float64 when the circle is nearly equatorial)
	hn := ref.HV(gen.V(a)).Cross(ref.HV(gen.V(b)))
	nn := hn.Norm2()
	for _, pole := range []s2.Point{s2.PointFromCoords(0, 0, 1), s2.PointFromCoords(0, 0, -1)} {
		hp := ref.HV(gen.V(pole))
		k := new(big.Float).SetPrec(ref.Prec).Quo(hp.Dot(hn), nn)
		hq := hp.Sub(hn.Scale(k))
		if !hq.IsZero() && ref.Fl(hq.Norm2()) > 1e-30 {
			u := hq.Unit().V()
			p := s2.Point{Vector: r3.Vector{X: u[0], Y: u[1], Z: u[2]}}
			// keep it if it is on the edge
			if s2.Project(p, a, b).Distance(p).Radians() < 1e-14 {
				ps = append(ps, p, gen.NudgeUlps(r, p, 1))
			}
		}
	}
	return ps
}

func polarLoop(r *rand.Rand) gen.LoopSpec {
	// a loop with an edge through / next to a pole, or enclosing a pole
	pole := s2.PointFromCoords(0, 0, float64(1-2*r.Intn(2)))
	n := 4 + r.Intn(30)
	rad := gen.LogUniform(r, 1e-6, 1.2)
	var ctr s2.Point
	switch r.Intn(3) {
	case 0: // encloses the pole
		ctr = gen.Near(r, pole, rad*0.5*r.Float64())
	case 1: // boundary passes within a tiny distance of the pole
		ctr = gen.Near(r, pole, rad)
	default:
		ctr = gen.Near(r, pole, rad*(0.9+0.2*r.Float64()))
	}
	sp := gen.RegularSpec(ctr, n, rad, r.Float64()*7)
	if r.Intn(2) == 0 {
		// put one vertex pair so that the edge passes at 1e-9..1e-300 from the pole
		d := gen.LogUniform(r, 1e-300, 1e-9)
		i := r.Intn(n)
		a := sp.Vs[i]
		off := gen.Near(r, pole, d)
		// b = reflection of a through (nearly) the pole
		b := s2.Point{Vector: off.Mul(2 * off.Dot(a.Vector)).Sub(a.Vector).Normalize()}
		cand := append([]s2.Point(nil), sp.Vs...)
		cand[(i+1)%n] = b
		if ok, rmin, rmax := gen.StarOK(sp.Center, cand); ok {
			sp.Vs, sp.RMin, sp.RMax = cand, rmin, rmax
		}
	}
	sp.Kind = "polar"
	return sp
}

func loopCase(c *mon.Case) {
	r := c.R
	var sp gen.LoopSpec
	polar := r.Intn(4) == 0
	if polar {
		sp = polarLoop(r)
		c.Count("loop.polar", 1)
	} else {
		sp = gen.RandLoopSpec(r, 200)
	}
	vs := sp.Vs
	reversed := r.Intn(6) == 0
	if reversed {
		vs = gen.Reversed(vs)
	}
	c.Count("loop.regions", 1)
	model := ref.NewLoopModel(gen.Vs(vs), origin, gen.RefDir)
	det := func() any {
		k := len(vs)
		if k > 5 {
			k = 5
		}
		return map[string]any{"kind": sp.Kind, "n": len(vs), "reversed": reversed, "vertices_head": gen.HexAll(vs[:k]...)}
	}
	if c.I < 3 {
		c.Sample(det())
	}
	mkLoop := func() *s2.Loop { return s2.LoopFromPoints(append([]s2.Point(nil), vs...)) }
	l := mkLoop()
	variants := map[string]bounds{"Loop": {rect: l.RectBound(), cap: l.CapBound(), cells: l.CellUnionBound()}}
	poly := s2.PolygonFromOrientedLoops([]*s2.Loop{mkLoop()})
	variants["Polygon"] = bounds{rect: poly.RectBound(), cap: poly.CapBound(), cells: poly.CellUnionBound()}
	// the bound of a decoded (compressed when possible) polygon
	if r.Intn(3) == 0 {
		var buf bytes.Buffer
		if poly.Encode(&buf) == nil {
			var q s2.Polygon
			if q.Decode(bytes.NewReader(buf.Bytes())) == nil && q.NumLoops() == 1 {
				variants["DecodedPolygon"] = bounds{rect: q.RectBound(), cap: q.CapBound(), cells: nil}
				dl := q.Loop(0)
				variants["DecodedLoop"] = bounds{rect: dl.RectBound(), cap: dl.CapBound(), cells: nil}
			}
		}
	}
	// index region over the loop
	idx := s2.NewShapeIndex()
	idx.Add(mkLoop())
	reg := idx.Region()
	variants["ShapeIndexRegion"] = bounds{rect: reg.RectBound(), cap: reg.CapBound(), cells: reg.CellUnionBound()}
	// a RegionUnion holding the loop next to a far cap and a point: its bounds must still hold the loop
	ru := s2.RegionUnion{s2.CapFromCenterAngle(gen.Uniform(r), s1.Angle(gen.LogUniform(r, 1e-6, 0.5))), mkLoop(), gen.Uniform(r)}
	variants["RegionUnion"] = bounds{rect: ru.RectBound(), cap: ru.CapBound(), cells: ru.CellUnionBound()}

	var probes []s2.Point
	var kinds []string
	for i, v := range vs {
		probes = append(probes, v)
		kinds = append(kinds, "vertex")
		if len(vs) < 40 || i%(len(vs)/20+1) == 0 {
			for _, e := range edgeSamples(r, v, vs[(i+1)%len(vs)]) {
				if model.Contains(gen.V(e)) {
					probes = append(probes, e)
					kinds = append(kinds, "edge-point")
				}
			}
		}
	}
	for _, p := range gen.BoundaryProbes(r, vs, 20) {
		if model.Contains(gen.V(p)) {
			probes = append(probes, p)
			kinds = append(kinds, "contained-point-near-boundary")
		}
	}
	for k := 0; k < 6; k++ {
		p := gen.Near(r, sp.Center, sp.RMax*r.Float64())
		if model.Contains(gen.V(p)) {
			probes = append(probes, p)
			kinds = append(kinds, "interior-point")
		}
	}
	for _, pole := range []s2.Point{s2.PointFromCoords(0, 0, 1), s2.PointFromCoords(0, 0, -1)} {
		if model.Contains(gen.V(pole)) {
			probes = append(probes, pole)
			kinds = append(kinds, "pole")
		}
	}
	for name, b := range variants {
		for i, p := range probes {
			checkProbe(c, name, b, p, kinds[i], det)
		}
	}
	c.Distinct(append(gen.Bits(vs[0], vs[len(vs)/2]), uint64(len(vs)))...)
}

func polylineCase(c *mon.Case) {
	r := c.R
	n := 2 + r.Intn(10)
	var vs []s2.Point
	start := gen.RandCenter(r)
	vs = append(vs, start)
	for len(vs) < n {
		var nx s2.Point
		switch r.Intn(5) {
		case 0: // long edge
			nx = gen.Near(r, s2.Point{Vector: vs[len(vs)-1].Mul(-1)}, 0.05+r.Float64())
		case 1: // towards / across a pole
			pole := s2.PointFromCoords(0, 0, float64(1-2*r.Intn(2)))
			off := gen.Near(r, pole, gen.LogUniform(r, 1e-300, 1e-3))
			a := vs[len(vs)-1]
			nx = s2.Point{Vector: off.Mul(2 * off.Dot(a.Vector)).Sub(a.Vector).Normalize()}
		case 2: // nearly 180 degrees of longitude at mid latitude
			ll := s2.LatLngFromPoint(vs[len(vs)-1])
			nx = s2.PointFromLatLng(s2.LatLng{Lat: ll.Lat, Lng: ll.Lng + s1.Angle(math.Pi-gen.LogUniform(r, 1e-9, 0.5))}.Normalized())
		default:
			nx = gen.Near(r, vs[len(vs)-1], gen.LogUniform(r, 1e-7, 1))
		}
		if nx == vs[len(vs)-1] || ref.Antipodal(gen.V(nx), gen.V(vs[len(vs)-1])) {
			continue
		}
		vs = append(vs, nx)
	}
	pl := s2.Polyline(vs)
	b := bounds{rect: pl.RectBound(), cap: pl.CapBound(), cells: pl.CellUnionBound()}
	det := func() any { return map[string]any{"n": n, "vertices": gen.HexAll(vs...)} }
	if c.I < 3 {
		c.Sample(det())
	}
	for i, v := range vs {
		checkProbe(c, "Polyline", b, v, "vertex", det)
		if i+1 < n {
			for _, e := range edgeSamples(r, v, vs[i+1]) {
				// a rounded sample may be ~1e-16 off the edge; the bounds are documented to absorb that
				perr := ref.AngleFromChord2(ref.Fl(ref.DistChord2ToSegment(ref.HV(gen.V(e)), ref.HV(gen.V(v)), ref.HV(gen.V(vs[i+1])))))
				c.Max("probes.max_edge_sample_error_rad", perr)
				checkProbeEdge(c, "Polyline", b, e, "edge-point", v.Add(vs[i+1].Vector).Norm(), perr, det)
			}
		}
	}
	c.Distinct(append(gen.Bits(vs[0], vs[n-1]), uint64(n))...)
}

func simpleCase(c *mon.Case) {
	r := c.R
	switch r.Intn(4) {
	case 0: // cap
		ctr := gen.RandCenter(r)
		var cp s2.Cap
		switch r.Intn(4) {
		case 0:
			cp = s2.CapFromCenterAngle(ctr, s1.Angle(gen.LogUniform(r, 1e-12, 1e-3)))
		case 1:
			cp = s2.CapFromCenterAngle(ctr, s1.Angle(math.Pi-gen.LogUniform(r, 1e-9, 0.5)))
		default:
			cp = s2.CapFromCenterAngle(ctr, s1.Angle(r.Float64()*math.Pi))
		}
		b := bounds{rect: cp.RectBound(), cap: cp.CapBound(), cells: cp.CellUnionBound(), granularity: math.Min(1e-7, 2e-15/math.Max(math.Sin(cp.Radius().Radians()), 1e-9))}
		det := func() any {
			return map[string]any{"cap_center": gen.Hex(cp.Center()), "cap_radius": cp.Radius().Radians()}
		}
		if c.I < 3 {
			c.Sample(det())
		}
		rad := cp.Radius().Radians()
		for k := 0; k < 24; k++ {
			d := rad
			if k%3 == 1 {
				d = rad * (1 - 1e-15)
			}
			p := gen.Near(r, ctr, math.Min(d, math.Pi))
			if k%4 == 0 { // towards the poles and east/west extremes
				dir := []s2.Point{s2.PointFromCoords(0, 0, 1), s2.PointFromCoords(0, 0, -1)}[r.Intn(2)]
				t := dir.Sub(ctr.Mul(dir.Dot(ctr.Vector)))
				if t.Norm2() > 1e-20 {
					p = s2.Point{Vector: ctr.Mul(math.Cos(d)).Add(t.Normalize().Mul(math.Sin(d))).Normalize()}
				}
			}
			p = gen.NudgeUlps(r, p, r.Intn(3))
			if cp.ContainsPoint(p) {
				checkProbe(c, "Cap", b, p, "contained-point-near-boundary", det)
			}
		}
		c.Distinct(append(gen.Bits(ctr), math.Float64bits(rad))...)
	case 1: // lat-lng rectangle
		lat0, lat1 := (r.Float64()-0.5)*math.Pi, (r.Float64()-0.5)*math.Pi
		if lat0 > lat1 {
			lat0, lat1 = lat1, lat0
		}
		if r.Intn(4) == 0 { // roughly symmetric about the equator: the centre cap competes with the pole cap
			lat1 = math.Abs(lat0)*r.Float64() + 0.01
			lat0 = -lat1 * (0.8 + 0.4*r.Float64())
			lat0 = math.Max(lat0, -math.Pi/2)
			lat1 = math.Min(lat1, math.Pi/2)
		}
		lo := (r.Float64()*2 - 1) * math.Pi
		width := r.Float64() * 2 * math.Pi
		if r.Intn(3) == 0 {
			width = math.Pi + gen.LogUniform(r, 1e-9, 3)*float64(1-2*r.Intn(2))
			width = math.Max(1e-9, math.Min(2*math.Pi-1e-9, width))
		}
		hi := math.Remainder(lo+width, 2*math.Pi)
		rc := s2.Rect{Lat: r1.Interval{Lo: lat0, Hi: lat1}, Lng: s1.IntervalFromEndpoints(lo, hi)}
		if !rc.IsValid() || rc.IsEmpty() {
			return
		}
		if width > math.Pi {
			c.Count("rect.wide", 1)
		}
		b := bounds{rect: rc.RectBound(), cap: rc.CapBound(), cells: rc.CellUnionBound()}
		det := func() any {
			return map[string]any{"rect": fmt.Sprintf("lat[%x,%x] lng[%x,%x]", rc.Lat.Lo, rc.Lat.Hi, rc.Lng.Lo, rc.Lng.Hi), "lng_width": width}
		}
		if c.I < 3 {
			c.Sample(det())
		}
		var pts []s2.LatLng
		for k := 0; k < 4; k++ {
			pts = append(pts, rc.Vertex(k))
		}
		for k := 0; k < 16; k++ {
			la := lat0 + (lat1-lat0)*r.Float64()
			ln := math.Remainder(lo+width*r.Float64(), 2*math.Pi)
			switch k % 4 {
			case 0:
				la = []float64{lat0, lat1}[r.Intn(2)]
			case 1:
				ln = []float64{lo, hi}[r.Intn(2)]
			case 2:
				ln = math.Remainder(lo+width/2, 2*math.Pi)
			}
			pts = append(pts, s2.LatLng{Lat: s1.Angle(la), Lng: s1.Angle(ln)})
		}
		for _, ll := range pts {
			p := s2.PointFromLatLng(ll)
			if rc.ContainsPoint(p) {
				checkProbe(c, "Rect", b, p, "contained-point", det)
			}
		}
		c.DistinctF(lat0, lat1, lo, hi)
	case 2: // cell
		cell := s2.CellFromCellID(gen.RandCellID(r, r.Intn(31)))
		if r.Intn(3) == 0 {
			cell = s2.CellFromCellID(s2.CellFromPoint(gen.Special(r)).ID().Parent(r.Intn(31)))
		}
		b := bounds{rect: cell.RectBound(), cap: cell.CapBound(), cells: cell.CellUnionBound()}
		det := func() any { return map[string]any{"cell": cell.ID().ToToken()} }
		for k := 0; k < 4; k++ {
			checkProbe(c, "Cell", b, cell.Vertex(k), "vertex", det)
			checkProbe(c, "Cell", b, s2.Point{Vector: cell.Vertex(k).Add(cell.Vertex((k + 1) % 4).Vector).Normalize()}, "edge-point", det)
		}
		checkProbe(c, "Cell", b, cell.Center(), "interior-point", det)
		c.Distinct(uint64(cell.ID()))
	default: // cell union
		cu := s2.CellUnion(gen.CellMultiset(r, 12))
		cu.Normalize()
		if len(cu) == 0 {
			return
		}
		b := bounds{rect: cu.RectBound(), cap: cu.CapBound(), cells: cu.CellUnionBound()}
		det := func() any {
			var t []string
			for _, id := range cu {
				t = append(t, id.ToToken())
			}
			return map[string]any{"cell_union": t}
		}
		for _, id := range cu {
			cell := s2.CellFromCellID(id)
			for k := 0; k < 4; k++ {
				checkProbe(c, "CellUnion", b, cell.Vertex(k), "vertex", det)
			}
			checkProbe(c, "CellUnion", b, cell.Center(), "interior-point", det)
		}
		c.Distinct(uint64(cu[0]), uint64(len(cu)))
	}
}

func hullCase(c *mon.Case) {
	r := c.R
	q := s2.NewConvexHullQuery()
	ctr := gen.RandCenter(r)
	spread := gen.LogUniform(r, 1e-6, 1.2)
	var pts []s2.Point
	np := 1 + r.Intn(30)
	for i := 0; i < np; i++ {
		p := gen.Near(r, ctr, spread*r.Float64())
		if r.Intn(8) == 0 && len(pts) > 0 {
			p = pts[r.Intn(len(pts))] // duplicates
		}
		if r.Intn(8) == 0 && len(pts) > 1 { // collinear with two others
			p = gen.OnGreatCircle(r, pts[0], pts[1], r.Float64(), 0)
		}
		pts = append(pts, p)
	}
	switch r.Intn(5) {
	case 4: // a polygon of several shells, some with holes (and islands in the holes), loops in shuffled order
		var loops []*s2.Loop
		pts = nil
		k := 2 + r.Intn(4)
		x, y, z := gen.Frame(ctr)
		for j := 0; j < k; j++ {
			cj := gen.AtPolar(x, y, z, spread*0.6, 2*math.Pi*float64(j)/float64(k))
			rad := spread * 0.6 * math.Sin(math.Pi/float64(k)) * 0.7
			for d := 0; d < 1+r.Intn(3); d++ {
				sp := gen.StarLoop(r, cj, 3+r.Intn(10), rad*0.8, rad)
				loops = append(loops, sp.Loop())
				if d == 0 {
					pts = append(pts, sp.Vs...) // the hull must contain every shell
				}
				rad = sp.RMin * 0.7
			}
		}
		r.Shuffle(len(loops), func(i, j int) { loops[i], loops[j] = loops[j], loops[i] })
		q.AddPolygon(s2.PolygonFromLoops(loops))
		c.Count("hull.multi_shell_polygons", 1)
	case 0:
		for _, p := range pts {
			q.AddPoint(p)
		}
	case 1:
		pl := s2.Polyline(append([]s2.Point(nil), pts...))
		q.AddPolyline(&pl)
	case 2:
		sp := gen.StarLoop(r, ctr, 3+r.Intn(20), spread*0.5, spread)
		q.AddLoop(sp.Loop())
		pts = sp.Vs
	default:
		sp := gen.StarLoop(r, ctr, 3+r.Intn(20), spread*0.5, spread)
		q.AddPolygon(s2.PolygonFromLoops([]*s2.Loop{sp.Loop()}))
		pts = sp.Vs
		for _, p := range []s2.Point{gen.Near(r, ctr, spread*1.5)} {
			q.AddPoint(p)
			pts = append(pts, p)
		}
	}
	hull := q.ConvexHull()
	c.Count("hull.checked", 1)
	det := func() any {
		return map[string]any{"inputs": gen.HexAll(pts...), "hull": gen.HexAll(hull.Vertices()...)}
	}
	if c.I < 2 {
		c.Sample(map[string]any{"inputs": len(pts), "hull_vertices": hull.NumVertices()})
	}
	c.Distinct(append(gen.Bits(pts[0]), uint64(len(pts)))...)
	hv := hull.Vertices()
	if hull.IsEmpty() || hull.IsFull() || len(hv) < 3 {
		// degenerate hulls (fewer than 3 distinct points) are special loops; only containment of the inputs applies when possible
		if hull.IsFull() {
			return
		}
	}
	if len(hv) >= 3 {
		n := len(hv)
		for i := 0; i < n; i++ {
			if ref.Orient(gen.V(hv[i]), gen.V(hv[(i+1)%n]), gen.V(hv[(i+2)%n])) < 0 {
				c.Violation("ConvexHull/not-convex/wrong-answer", fmt.Sprintf("hull vertices %d,%d,%d turn clockwise", i, (i+1)%n, (i+2)%n), det())
				break
			}
		}
		hm := ref.NewLoopModel(gen.Vs(hv), origin, gen.RefDir)
		for _, p := range pts {
			isV := false
			for _, v := range hv {
				if v == p {
					isV = true
				}
			}
			if isV {
				continue
			}
			// inside or on the boundary: not strictly outside any hull edge
			out := false
			for i := 0; i < n; i++ {
				if ref.Orient(gen.V(hv[i]), gen.V(hv[(i+1)%n]), gen.V(p)) < 0 && ref.DetSign(gen.V(hv[i]), gen.V(hv[(i+1)%n]), gen.V(p)) < 0 {
					out = true
				}
			}
			if out && !hm.Contains(gen.V(p)) {
				c.Violation("ConvexHull/misses-input-point/wrong-answer", "an input point is neither a hull vertex nor inside the hull: "+gen.Hex(p), det())
				break
			}
		}
	}
	// the query's cap bound contains every input
	cb := q.CapBound()
	for _, p := range pts {
		checkProbe(c, "ConvexHullQuery", bounds{rect: s2.FullRect(), cap: cb, cells: nil}, p, "input-point", det)
	}
}

// bandSubregion: A is a band around the equator more than 180 degrees of longitude wide (so that its bound may
// be an inverted longitude interval), B a thin triangle inside it with two nearly antipodal vertices on the
// equator (the bound of such an edge spans all longitudes).
func bandSubregion(c *mon.Case) {
	r := c.R
	lngC := r.Float64()*360 - 180
	if r.Intn(2) == 0 {
		lngC = 180 - r.Float64()*20 + 10 // around the antimeridian
	}
	W := 95 + 70*r.Float64()
	h := 5 + 25*r.Float64()
	var avs []s2.Point
	steps := int(2*W/10) + 1
	for i := 0; i <= steps; i++ {
		avs = append(avs, s2.PointFromLatLng(s2.LatLngFromDegrees(-h, lngC-W+2*W*float64(i)/float64(steps)).Normalized()))
	}
	for i := steps; i >= 0; i-- {
		avs = append(avs, s2.PointFromLatLng(s2.LatLngFromDegrees(h, lngC-W+2*W*float64(i)/float64(steps)).Normalized()))
	}
	delta := gen.LogUniform(r, 1e-15, 1e-6) * 180 / math.Pi
	if r.Intn(2) == 0 {
		delta = 0 // antipodal up to the rounding of sin and cos: the edge's longitude range is then the full circle
	}
	bvs := []s2.Point{
		s2.PointFromLatLng(s2.LatLngFromDegrees(0, lngC-90+delta).Normalized()),
		s2.PointFromLatLng(s2.LatLngFromDegrees(0, lngC+90-delta).Normalized()),
		s2.PointFromLatLng(s2.LatLngFromDegrees(h*0.2, lngC).Normalized()),
	}
	if ref.Antipodal(gen.V(bvs[0]), gen.V(bvs[1])) {
		return
	}
	// B inside A by the exact model (all of B's vertices and edge midpoints)
	ma := ref.NewLoopModel(gen.Vs(avs), origin, gen.RefDir)
	for i := range bvs {
		if !ma.Contains(gen.V(bvs[i])) || !ma.Contains(gen.V(s2.Interpolate(0.5, bvs[i], bvs[(i+1)%3]))) {
			return
		}
	}
	la, lb := s2.LoopFromPoints(avs), s2.LoopFromPoints(bvs)
	c.Count("subregion.pairs", 1)
	c.Count("subregion.wide_bands", 1)
	c.Distinct(gen.Bits(avs[0], bvs[0])...)
	ea, bb := s2.ExpandForSubregions(la.RectBound()), lb.RectBound()
	det := func() any {
		return map[string]any{"band_centre_lng_deg": lngC, "band_half_width_deg": W, "band_half_height_deg": h, "B": gen.HexAll(bvs...), "boundA": fmt.Sprint(la.RectBound()), "expandedA": fmt.Sprint(ea), "boundB": fmt.Sprint(bb)}
	}
	if !ea.Contains(bb) {
		c.Violation("ExpandForSubregions/does-not-contain-subloop-bound/wrong-answer", "B lies inside the band A, but ExpandForSubregions(A.RectBound()) does not contain B.RectBound()", det())
	}
	if !la.Contains(lb) {
		c.Violation("ExpandForSubregions/Loop.Contains-false-for-subloop/wrong-answer", "B lies inside the band A, but A.Contains(B) is false (the bound pre-check uses ExpandForSubregions)", det())
	}
}

func subregionCase(c *mon.Case) {
	r := c.R
	if r.Intn(4) == 0 {
		bandSubregion(c)
		return
	}
	ctr := gen.RandCenter(r)
	// away from the poles: the documented guarantee excludes loops enclosing a pole
	if math.Abs(ctr.Z) > 0.7 {
		ctr = s2.PointFromLatLng(s2.LatLngFromDegrees(r.Float64()*80-40, r.Float64()*360-180))
	}
	ra := gen.LogUniform(r, 1e-5, 0.6)
	a := gen.StarLoop(r, ctr, 4+r.Intn(60), ra*0.7, ra)
	if a.RMin <= 0 {
		return
	}
	rb := a.RMin * (0.05 + 0.9*r.Float64())
	b := gen.StarLoop(r, gen.Near(r, ctr, (a.RMin-rb)*0.95*r.Float64()), 3+r.Intn(40), rb*0.5, rb)
	// B may share vertices with A's inner region boundary... it is strictly inside by construction
	la, lb := a.Loop(), b.Loop()
	c.Count("subregion.pairs", 1)
	c.Distinct(gen.Bits(a.Vs[0], b.Vs[0])...)
	ea := s2.ExpandForSubregions(la.RectBound())
	bb := lb.RectBound()
	det := func() any {
		return map[string]any{"A_head": gen.HexAll(a.Vs[:3]...), "B_head": gen.HexAll(b.Vs[:3]...), "nA": len(a.Vs), "nB": len(b.Vs), "expandedA": fmt.Sprint(ea), "boundB": fmt.Sprint(bb)}
	}
	if c.I < 2 {
		c.Sample(det())
	}
	if !ea.Contains(bb) {
		c.Violation("ExpandForSubregions/does-not-contain-subloop-bound/wrong-answer", "B lies inside A, but ExpandForSubregions(A.RectBound()) does not contain B.RectBound()", det())
	}
	// also through a RectBounder fed with A's vertices
	rbd := s2.NewRectBounder()
	for _, v := range a.Vs {
		rbd.AddPoint(v)
	}
	rbd.AddPoint(a.Vs[0])
	rect := rbd.RectBound()
	for _, v := range a.Vs {
		if !rect.ContainsLatLng(s2.LatLngFromPoint(v)) {
			c.Violation("RectBounder/misses-vertex/wrong-answer", "RectBounder's bound misses a vertex it was given", det())
			break
		}
	}
}
