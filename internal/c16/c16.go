// Package c16 monitors C16: the intersection point of two crossing edges is
// accurate and order-independent.
package c16

import (
	"fmt"
	"math"
	"math/rand"

	"github.com/golang/geo/r3"
	"github.com/golang/geo/s1"
	"github.com/golang/geo/s2"

	"verif/internal/gen"
	"verif/internal/mon"
	"verif/internal/ref"
)

func Run(m *mon.M) {
	m.Rule = "pairs of edges that cross according to the exact reference predicate: crossing angles 90 degrees..1e-15 rad, half-lengths 1e-300..~90 degrees (tiny lengths next to coordinate axes), crossings at/next to endpoints (ulps), exactly collinear overlapping edges on special planes, nearly antipodal endpoints; each pair is evaluated in all 8 orderings. A pair is non-trivial and distinct when its bits are new AND (the fast path declined and exact arithmetic ran, or the crossing angle is below 1e-6 rad, or the crossing is within 1e-9 of an endpoint, or the edges are exactly collinear)"
	m.Assumptions = []string{"internal/ref: exact integer cross products (a0 x a1) x (b0 x b1), 320-bit normalisation; documented error intersectionError = 8*2^-53 rad read through the hook (+2^-53 for the final rounding of the oracle comparison)"}
	m.Require("pairs.crossing", 20000)
	m.Require("path.exact", 1000)
	m.Require("path.stable", 10000)
	m.Require("pairs.collinear", 300)
	m.Require("bisector.float_ties_found", 2000)
	m.Require("cross.nearly_antipodal_first_edge", 10000)
	m.Stream("cross", m.N(250000, 20000000), crossCase)
	m.Stream("collinear", m.N(20000, 1000000), collinearCase)
	m.Stream("equal-lengths", m.N(60000, 3000000), equalLengthsCase)
	m.Stream("alongside", m.N(150000, 6000000), alongsideCase)
	m.Stream("bisector", m.N(150000, 5000000), bisectorCase)
}

func rot(v, axis r3.Vector, ang float64) r3.Vector {
	// Rodrigues rotation of v about unit axis
	s, c := math.Sincos(ang)
	return v.Mul(c).Add(axis.Cross(v).Mul(s)).Add(axis.Mul(axis.Dot(v) * (1 - c)))
}

func crossCase(c *mon.Case) {
	r := c.R
	var m s2.Point
	axisAligned := r.Intn(3) == 0
	if axisAligned {
		m = gen.Special(r)
		if m.X*m.Y != 0 || m.Y*m.Z != 0 || m.X*m.Z != 0 { // keep only the six axis points: tiny offsets survive there
			m = s2.PointFromCoords(1, 0, 0)
		}
	} else {
		m = gen.Uniform(r)
	}
	t1 := m.Ortho()
	phi := gen.LogUniform(r, 1e-15, math.Pi/2)
	if r.Intn(3) == 0 {
		phi = math.Pi / 2 * r.Float64()
	}
	t2 := rot(t1, m.Vector, phi)
	length := func() float64 {
		if axisAligned && r.Intn(2) == 0 {
			return gen.LogUniform(r, 1e-300, 1e-9)
		}
		if r.Intn(4) == 0 {
			return math.Pi/2 - gen.LogUniform(r, 1e-9, 0.5) // long: the edge approaches 180 degrees
		}
		return gen.LogUniform(r, 1e-12, 1.5)
	}
	mk := func(t r3.Vector, d float64) s2.Point {
		if math.Abs(d) < 1e-8 {
			return s2.Point{Vector: m.Vector.Add(t.Mul(d))}
		}
		return s2.Point{Vector: m.Mul(math.Cos(d)).Add(t.Mul(math.Sin(d))).Normalize()}
	}
	la0, la1, lb0, lb1 := length(), length(), length(), length()
	// crossings at / next to an endpoint
	if r.Intn(6) == 0 {
		la0 = gen.LogUniform(r, 1e-300, 1e-12)
	}
	// one case in eight: the first edge is nearly 180 degrees long and is crossed next to one of its endpoints
	// (the sum of its endpoints is then a tiny vector dominated by rounding)
	if r.Intn(8) == 0 {
		delta := gen.LogUniform(r, 1e-12, 1e-3)
		la0 = gen.LogUniform(r, 1e-16, 1e-3) * math.Min(1, delta*1e3)
		if la1 = math.Pi - delta - la0; la1 <= 0 {
			return
		}
		c.Count("cross.nearly_antipodal_first_edge", 1)
	}
	a0, a1 := mk(t1, -la0), mk(t1, la1)
	b0, b1 := mk(t2, -lb0), mk(t2, lb1)
	if r.Intn(5) == 0 {
		a0 = gen.NudgeUlps(r, a0, 2)
		b1 = gen.NudgeUlps(r, b1, 2)
	}
	check(c, a0, a1, b0, b1, phi, math.Min(math.Min(la0, la1), math.Min(lb0, lb1)))
}

// bisectorCase: the longer edge is mirror-symmetric in a coordinate plane and an
// endpoint of the other edge lies exactly on that plane, so its squared
// distances to both endpoints of the longer edge are bit-equal: the choice of
// the reference endpoint inside the projection must then be made by the
// deterministic tie-break, or the result changes by an ulp when the longer
// edge is reversed.
func bisectorCase(c *mon.Case) {
	r := c.R
	if r.Intn(3) != 0 {
		// general position: search, by ulp nudges, for an endpoint whose float64 squared distances to the
		// two endpoints of the (longer) edge are bit-equal
		a0 := gen.Uniform(r)
		a1 := gen.Near(r, a0, gen.LogUniform(r, 1e-3, 1.5))
		d := a1.Sub(a0.Vector)
		m := s2.Point{Vector: a0.Add(a1.Vector).Normalize()}
		w := gen.Near(r, m, gen.LogUniform(r, 1e-6, 0.3)*a0.Distance(a1).Radians())
		u := w.Sub(d.Mul(w.Dot(d) / d.Norm2()))
		b0 := s2.Point{Vector: u.Normalize()}
		found := false
		for try := 0; try < 300; try++ {
			if b0.Sub(a0.Vector).Norm2() == b0.Sub(a1.Vector).Norm2() {
				found = true
				break
			}
			b0 = gen.NudgeUlps(r, b0, 1)
		}
		if !found {
			return
		}
		// b1: b0 reflected through the edge's great circle, so that the edges cross; shorter than a
		n := a0.PointCross(a1).Normalize()
		b1 := s2.Point{Vector: b0.Sub(n.Mul(2 * b0.Dot(n))).Normalize()}
		b1 = gen.Near(r, b1, 0.2*b0.Distance(b1).Radians()*r.Float64())
		c.Count("bisector.float_ties_found", 1)
		check(c, a0, a1, b0, b1, 1, 1)
		return
	}
	// mirror plane: one coordinate negated
	k := r.Intn(3)
	p := gen.Uniform(r)
	neg := func(v s2.Point) s2.Point {
		switch k {
		case 0:
			v.X = -v.X
		case 1:
			v.Y = -v.Y
		default:
			v.Z = -v.Z
		}
		return v
	}
	onPlane := func(v s2.Point) s2.Point {
		switch k {
		case 0:
			v.X = 0
		case 1:
			v.Y = 0
		default:
			v.Z = 0
		}
		return s2.Point{Vector: v.Normalize()}
	}
	// a0 at a small to moderate distance from the plane, a1 its mirror image
	mid := onPlane(p)
	a0 := gen.Near(r, mid, gen.LogUniform(r, 1e-6, 1.2))
	a1 := neg(a0)
	if a0 == a1 {
		return
	}
	// b0 exactly on the plane, near the middle of the edge; b1 on the other side of the edge
	m := onPlane(s2.Point{Vector: a0.Add(a1.Vector)})
	h := gen.LogUniform(r, 1e-9, 0.5) * a0.Distance(a1).Radians()
	b0 := onPlane(gen.Near(r, m, h))
	b1 := s2.Point{Vector: m.Mul(2 * m.Dot(b0.Vector)).Sub(b0.Vector).Normalize()} // b0 reflected through m
	if r.Intn(2) == 0 {
		b1 = gen.Near(r, b1, h*0.3*r.Float64())
	} else {
		b1 = onPlane(b1)
	}
	c.Count("bisector.generated", 1)
	check(c, a0, a1, b0, b1, 1, 1)
}

// equalLengthsCase: two crossing edges of (nearly) the same length - the diagonals of a lat-lng rectangle, or
// one edge and its image under a rotation about the common midpoint. Their float64 squared lengths are equal
// or differ in the last places, which is where the choice "which edge is the longer one" must not depend on
// the argument order.
func equalLengthsCase(c *mon.Case) {
	r := c.R
	var a0, a1, b0, b1 s2.Point
	if r.Intn(2) == 0 {
		lat := (r.Float64()*2 - 1) * 1.4
		lng := (r.Float64()*2 - 1) * 3
		dlat, dlng := gen.LogUniform(r, 1e-6, 0.5), gen.LogUniform(r, 1e-6, 1)
		if r.Intn(3) == 0 { // centred on the equator or a round coordinate: exactly symmetric
			lat = 0
		}
		ll := func(la, ln float64) s2.Point {
			return s2.PointFromLatLng(s2.LatLng{Lat: s1.Angle(math.Max(-math.Pi/2, math.Min(math.Pi/2, la))), Lng: s1.Angle(math.Remainder(ln, 2*math.Pi))})
		}
		a0, a1 = ll(lat-dlat, lng-dlng), ll(lat+dlat, lng+dlng)
		b0, b1 = ll(lat-dlat, lng+dlng), ll(lat+dlat, lng-dlng)
	} else {
		m := gen.Uniform(r)
		if r.Intn(3) == 0 {
			m = gen.Special(r)
		}
		t := m.Ortho()
		half := gen.LogUniform(r, 1e-7, 1.2)
		phi := gen.LogUniform(r, 1e-4, math.Pi/2)
		t2 := rot(t, m.Vector, phi)
		mk := func(t r3.Vector, d float64) s2.Point {
			return s2.Point{Vector: m.Mul(math.Cos(d)).Add(t.Mul(math.Sin(d))).Normalize()}
		}
		a0, a1, b0, b1 = mk(t, -half), mk(t, half), mk(t2, -half), mk(t2, half)
	}
	// nudge one endpoint until the two squared lengths are within 2 ulps of each other
	for try := 0; try < 40; try++ {
		la, lb := a1.Sub(a0.Vector).Norm2(), b1.Sub(b0.Vector).Norm2()
		if math.Abs(la-lb) <= 2*(math.Nextafter(la, 8)-la) {
			if la == lb {
				c.Count("equal_lengths.bit_equal", 1)
			} else {
				c.Count("equal_lengths.within_2_ulps", 1)
			}
			break
		}
		b1 = gen.NudgeUlps(r, b1, 1)
	}
	check(c, a0, a1, b0, b1, 1, 1)
}

// alongsideCase: a short edge that starts right beside a vertex of a longer edge, runs along it at a shallow
// angle and crosses it just before its own far end (or the mirror image at the other vertex): the projections
// of the two endpoints of one edge onto the other then have very different error terms.
func alongsideCase(c *mon.Case) {
	r := c.R
	a0 := gen.Uniform(r)
	la := gen.LogUniform(r, 1e-3, 1.5)
	a1 := gen.Near(r, a0, la)
	n := a0.PointCross(a1).Normalize()
	s := la * gen.LogUniform(r, 1e-4, 0.9) // where the crossing is, measured from a0
	phi := gen.LogUniform(r, 1e-7, 1e-2)   // crossing angle
	delta := gen.LogUniform(r, 1e-4, 0.5)  // fraction of the short edge beyond the crossing
	back := 1.0
	if r.Intn(3) == 0 {
		back = gen.LogUniform(r, 1e-3, 1) // the short edge may also start part of the way along
	}
	on := func(d float64) s2.Point { return gen.OnGreatCircle(r, a0, a1, d/la, 0) }
	off := func(p s2.Point, h float64) s2.Point {
		return s2.Point{Vector: p.Vector.Add(n.Mul(h)).Normalize()}
	}
	b0 := off(on(s*(1-back)), s*back*phi)
	b1 := off(on(s*(1+delta)), -s*delta*phi)
	if r.Intn(2) == 0 {
		a0, a1 = a1, a0 // the same at the other vertex
	}
	if r.Intn(2) == 0 {
		b0, b1 = b1, b0
	}
	c.Count("alongside.generated", 1)
	check(c, a0, a1, b0, b1, phi, s*delta)
}

func collinearCase(c *mon.Case) {
	r := c.R
	k := r.Intn(9)
	// four points on one exact plane, overlapping intervals a0 < b0 < a1 < b1 along the circle
	var ps []s2.Point
	for len(ps) < 4 {
		ps = append(ps, gen.OnPlane(r, k))
	}
	// order them by angle from ps[0] within the half circle: use the reference orientation against the plane normal
	base := ps[0]
	n := base.Cross(ps[1].Vector)
	if n.Norm2() == 0 {
		return
	}
	ang := func(p s2.Point) float64 {
		return math.Atan2(base.Cross(p.Vector).Dot(n.Normalize()), base.Dot(p.Vector))
	}
	// keep points within 80 degrees so that every edge is short
	for i := range ps {
		a := ang(ps[i])
		if math.Abs(a) > 1.4 {
			return
		}
	}
	for i := 0; i < 4; i++ {
		for j := i + 1; j < 4; j++ {
			if ang(ps[j]) < ang(ps[i]) {
				ps[i], ps[j] = ps[j], ps[i]
			}
		}
	}
	a0, b0, a1, b1 := ps[0], ps[1], ps[2], ps[3]
	if r.Intn(2) == 0 {
		a0, a1 = a1, a0
	}
	if r.Intn(2) == 0 {
		b0, b1 = b1, b0
	}
	check(c, a0, a1, b0, b1, 0, 1)
}

func check(c *mon.Case, a0, a1, b0, b1 s2.Point, phi, minLen float64) {
	va0, va1, vb0, vb1 := gen.V(a0), gen.V(a1), gen.V(b0), gen.V(b1)
	if ref.CrossingSign(va0, va1, vb0, vb1) != ref.Cross {
		c.Count("pairs.not_crossing_skipped", 1)
		return
	}
	c.Count("pairs.crossing", 1)
	det := func(extra map[string]any) any {
		d := map[string]any{"a0": gen.Hex(a0), "a1": gen.Hex(a1), "b0": gen.Hex(b0), "b1": gen.Hex(b1), "crossing_angle": phi}
		for k, v := range extra {
			d[k] = v
		}
		return d
	}
	if c.I < 3 {
		c.Sample(det(nil))
	}
	x := s2.Intersection(a0, a1, b0, b1)
	// fast path accepted?
	st, stOK := s2.VerifIntersectionStable(a0, a1, b0, b1)
	truth, ok := ref.IntersectionPoint(va0, va1, vb0, vb1)
	collinear := !ok
	nontrivial := phi < 1e-6 || minLen < 1e-9 || collinear
	if stOK {
		c.Count("path.stable", 1)
	} else {
		c.Count("path.exact", 1)
		nontrivial = true
	}
	if collinear {
		c.Count("pairs.collinear", 1)
	}
	if nontrivial {
		c.Distinct(gen.Bits(a0, a1, b0, b1)...)
	}
	// unit length
	n2 := x.Norm2()
	if !(math.Abs(n2-1) <= 4*2.220446049250313e-16) {
		c.Violation("Intersection/not-unit-length/"+mon.Severity(math.Abs(math.Sqrt(n2)-1)), fmt.Sprintf("|x|^2 - 1 = %.3g (stable path accepted: %v)", n2-1, stOK), det(map[string]any{"x": gen.Hex(x)}))
	}
	if math.IsNaN(n2) || n2 == 0 {
		return
	}
	hx := ref.HV(gen.V(x))
	// correct side of the sphere
	sum := ref.HV(va0).Add(ref.HV(va1)).Add(ref.HV(vb0)).Add(ref.HV(vb1))
	if hx.Dot(sum).Sign() < 0 {
		c.Violation("Intersection/wrong-hemisphere/wrong-answer", "the result is on the opposite side of the sphere from the edges", det(map[string]any{"x": gen.Hex(x)}))
	}
	tol := s2.VerifIntersectionError + 1.2e-16
	if !collinear {
		e := ref.Angle(hx, truth)
		c.Max("Intersection.max_error_over_intersectionError", e/s2.VerifIntersectionError)
		if e > tol {
			path := "exact-path"
			if stOK {
				path = "stable-path"
			}
			c.Violation("Intersection/error-bound/"+path+"/"+mon.Severity(e-tol), fmt.Sprintf("the result is %.3g rad from the exact intersection point (documented: %.3g)", e, s2.VerifIntersectionError), det(map[string]any{"x": gen.Hex(x)}))
		}
		if stOK {
			// the stable path's own result (before the sign fix) already meets the bound, up to sign
			hs := ref.HV(gen.V(st))
			es := math.Min(ref.Angle(hs, truth), ref.Angle(hs.Neg(), truth))
			if es > tol {
				c.Violation("intersectionStable/accepts-inaccurate-result/"+mon.Severity(es-tol), fmt.Sprintf("intersectionStable accepted a result %.3g rad from the exact point", es), det(nil))
			}
		}
	} else {
		// exactly collinear overlapping edges: the result must be a point of both edges (one of the endpoints inside the other edge)
		da := math.Sqrt(math.Max(0, ref.Fl(ref.DistChord2ToSegment(hx, ref.HV(va0), ref.HV(va1)))))
		db := math.Sqrt(math.Max(0, ref.Fl(ref.DistChord2ToSegment(hx, ref.HV(vb0), ref.HV(vb1)))))
		if da > tol || db > tol {
			c.Violation("Intersection/collinear/not-on-both-edges/"+mon.Severity(math.Max(da, db)), fmt.Sprintf("for exactly collinear crossing edges the result is %.3g / %.3g rad away from the edges", da, db), det(map[string]any{"x": gen.Hex(x)}))
		}
	}
	// bit-identical under the 8 reorderings
	orders := [][4]s2.Point{{a1, a0, b0, b1}, {a0, a1, b1, b0}, {a1, a0, b1, b0}, {b0, b1, a0, a1}, {b1, b0, a0, a1}, {b0, b1, a1, a0}, {b1, b0, a1, a0}}
	names := []string{"reverse-a", "reverse-b", "reverse-both", "swap", "swap+reverse-b", "swap+reverse-a", "swap+reverse-both"}
	for i, o := range orders {
		y := s2.Intersection(o[0], o[1], o[2], o[3])
		// identical values (== on every coordinate, as the library documents it; +0 and -0 are the same value)
		if y != x {
			kind := "general"
			if collinear {
				kind = "collinear"
				// two endpoints that are different float triples of exactly the same direction: the symbolic
				// perturbation treats them as distinct points at one location (classified separately)
				pts := []s2.Point{a0, a1, b0, b1}
				for i := range pts {
					for j := i + 1; j < len(pts); j++ {
						if pts[i] != pts[j] && parallelSameDirection(pts[i], pts[j]) {
							kind = "collinear-with-two-representations-of-one-direction"
						}
					}
				}
			}
			c.Violation("Intersection/order-dependent/"+kind+"/wrong-answer", fmt.Sprintf("Intersection differs under %s: %s vs %s (%.3g rad apart)", names[i], gen.Hex(y), gen.Hex(x), x.Distance(y).Radians()), det(map[string]any{"reordering": names[i]}))
			break
		}
	}
	_ = rand.Int
}

// parallelSameDirection: p and q are exact positive multiples of each other.
func parallelSameDirection(p, q s2.Point) bool {
	l, _ := ref.Lift(gen.V(p), gen.V(q))
	x := ref.CrossI(l[0], l[1])
	return x[0].Sign() == 0 && x[1].Sign() == 0 && x[2].Sign() == 0 && ref.DotI(l[0], l[1]).Sign() > 0
}
