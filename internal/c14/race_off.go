//go:build !race

package c14

const raceEnabled = false
