// Package c14 monitors C14: concurrent read-only queries on shared geometry
// are safe and give serial answers. It is built and run with -race.
package c14

import (
	"bufio"
	"fmt"
	"hash/fnv"
	"math"
	"math/rand"
	"os"
	"path/filepath"
	"regexp"
	"runtime"
	"sort"
	"strings"
	"sync"
	"sync/atomic"
	"time"

	"github.com/anishathalye/porcupine"
	"github.com/golang/geo/s1"
	"github.com/golang/geo/s2"

	"verif/internal/gen"
	"verif/internal/mon"
)

const stream = "trial"

func Run(m *mon.M) {
	m.Rule = "trials: a shared Loop (>32 vertices), Polygon (>=32 vertices) or multi-shape ShapeIndex whose index is never built / already built / built by whichever of 2, 4 or 16 goroutines gets there first; every goroutine issues 6..20 read-only queries (point containment, cell relations, loop/polygon relations, ContainsPointQuery, CrossingEdgeQuery, EdgeQuery, IsFresh) with its own query objects; a seeded script yields or holds goroutines at the four schedule points of maybeApplyUpdates. A trial is distinct and non-trivial when the sequence of arrivals at the schedule points (which goroutine ordinal reached which point, in order) is new AND at least two goroutines were inside maybeApplyUpdates before the status became fresh"
	m.Assumptions = []string{"Go race detector (build -race, GORACE halt_on_error=0, reports parsed from the log and de-duplicated by the pair of innermost library frames)", "serial answers from a private identical copy", "porcupine v1.3.0 linearizability check of {query -> answer, IsFresh -> bool} against a two-state model (stale -> fresh, never back), 30 s checker timeout => inconclusive", "each batch of trials runs in a child process: a deadlock of all goroutines is reported by the Go runtime; RLIMIT_CPU 900 s"}
	total := int64(m.N(1500, 60000))
	work := filepath.Join(mon.Root(), ".work", "c14")
	os.MkdirAll(work, 0o755)
	old, _ := filepath.Glob(filepath.Join(work, "race.*"))
	for _, f := range old {
		os.Remove(f)
	}
	os.Setenv("GORACE", "halt_on_error=0 log_path="+filepath.Join(work, "race"))
	onDeath := func(d mon.Death) (string, string, any) {
		kind := "fatal"
		if strings.Contains(d.Exit, "exit status 66") {
			kind = "race-detector-exit-status" // the race runtime turns the exit status into 66 when it reported races
		}
		switch d.Kind {
		case "deadlock":
			kind = "deadlock"
		case "killed":
			kind = "hang/killed"
		}
		pl := genPlan(rand.New(rand.NewSource(mon.CaseSeed(m.Seed, stream, d.Index))))
		return "concurrent/" + kind + "/" + mon.Shorten(d.Stderr), fmt.Sprintf("the process running this trial died (%s): %s", d.Exit, d.Stderr), map[string]any{"trial": pl.describe(), "child": d.Exit}
	}
	if st, idx, ok := m.ReplayIndex(); ok {
		if st == stream {
			mon.RunChildren(m, "c14", stream, idx, idx+1, 1, onDeath)
		}
	} else {
		mon.RunChildren(m, "c14", stream, 0, total, 8, onDeath)
		m.Require("trials.contended_build", 200)
		m.Require("queries.compared", 20000)
		m.Require("linearizability.checked", 100)
	}
	// race reports
	logs, _ := filepath.Glob(filepath.Join(work, "race.*"))
	reports := 0
	for _, f := range logs {
		for key, text := range parseRaces(f) {
			reports++
			m.ViolationAt("race-detector", 0, "race/"+key, "DATA RACE reported by the Go race detector between "+key, map[string]any{"report": text})
		}
		os.Remove(f)
	}
	m.Count("race_detector.reports", int64(reports))
	if !raceEnabled {
		m.Broken("the monitor binary was not built with -race")
	}
}

func Worker(args []string) { mon.ChildMain("C14", stream, args, 0, 900, oneTrial) }

var frameRe = regexp.MustCompile(`^\s+(github\.com/golang/geo/\S+)\(\)\s*$`)

// parseRaces splits a race log into reports keyed by the pair of innermost library frames.
func parseRaces(path string) map[string]string {
	out := map[string]string{}
	f, err := os.Open(path)
	if err != nil {
		return out
	}
	defer f.Close()
	sc := bufio.NewScanner(f)
	sc.Buffer(make([]byte, 1<<20), 1<<20)
	var cur []string
	flush := func() {
		if len(cur) == 0 {
			return
		}
		// innermost library frame of each stack
		var frames []string
		inStack := false
		for _, ln := range cur {
			if strings.HasPrefix(ln, "Read at") || strings.HasPrefix(ln, "Write at") || strings.HasPrefix(ln, "Previous read at") || strings.HasPrefix(ln, "Previous write at") {
				inStack = true
				continue
			}
			if inStack {
				if mm := frameRe.FindStringSubmatch(ln); mm != nil {
					fn := mm[1][strings.LastIndex(mm[1], "/")+1:]
					frames = append(frames, fn)
					inStack = false
				}
				if strings.TrimSpace(ln) == "" {
					inStack = false
				}
			}
		}
		for len(frames) < 2 {
			frames = append(frames, "unknown")
		}
		pair := frames[:2]
		sort.Strings(pair)
		key := pair[0] + "~" + pair[1]
		if _, ok := out[key]; !ok {
			t := strings.Join(cur, "\n")
			if len(t) > 3000 {
				t = t[:3000]
			}
			out[key] = t
		}
		cur = nil
	}
	for sc.Scan() {
		ln := sc.Text()
		if strings.Contains(ln, "WARNING: DATA RACE") {
			flush()
			cur = []string{ln}
			continue
		}
		if cur != nil {
			if strings.HasPrefix(ln, "==================") && len(cur) > 1 {
				flush()
				continue
			}
			cur = append(cur, ln)
		}
	}
	flush()
	return out
}

// ---------- plan ----------

type query struct {
	kind  string
	p, q  s2.Point
	cell  s2.Cell
	model int // cpq: vertex model (0 semi-open, 1 open, 2 closed)
}

type plan struct {
	obj      string // loop | polygon | index
	vs       []s2.Point
	other    []s2.Point
	rings    [][]s2.Point
	pool     []*gen.Obj
	nG       int
	prebuilt bool
	queries  [][]query
	yields   [4][]int // per schedule point: number of Gosched calls per arrival (cyclic)
	hold     int      // bounded spin (in yields) of the builder before the status store
	center   s2.Point
	scale    float64
	containsOnly bool // loop/polygon: only point containment, so nothing else builds the index first
	shareOpts    bool // index: every goroutine's EdgeQuery is built from one shared options value
	manyLoops    bool // polygon: more than 12 loops
}

func (pl *plan) describe() any {
	return map[string]any{"object": pl.obj, "goroutines": pl.nG, "prebuilt": pl.prebuilt, "contains_only": pl.containsOnly, "polygon_loops": len(pl.rings), "shared_edge_query_options": pl.shareOpts, "queries_per_goroutine": len(pl.queries[0]), "hold": pl.hold, "yields": pl.yields}
}

var points = []string{"index.beforeStatusLoad", "index.beforeLock", "index.beforeStatusStore", "index.beforeUnlock"}

func genPlan(r *rand.Rand) *plan {
	pl := &plan{}
	pl.obj = []string{"loop", "polygon", "index", "index"}[r.Intn(4)]
	pl.center = gen.RandCenter(r)
	pl.scale = gen.LogUniform(r, 1e-3, 0.8)
	pl.nG = []int{2, 4, 16}[r.Intn(3)]
	pl.prebuilt = r.Intn(4) == 0
	n := 33 + r.Intn(120)
	sp := gen.StarLoop(r, pl.center, n, pl.scale*0.7, pl.scale)
	pl.vs = sp.Vs
	in := gen.StarLoop(r, gen.Near(r, pl.center, sp.RMin*0.3*r.Float64()), 33+r.Intn(40), sp.RMin*0.2, sp.RMin*0.5)
	pl.other = in.Vs
	pl.rings = [][]s2.Point{sp.Vs, in.Vs}
	if pl.obj == "polygon" && r.Intn(3) == 0 { // a polygon of 13..20 loops (its edge lookups use the cumulative-edge table)
		pl.rings = gen.Islands(r, pl.center, math.Min(pl.scale, 0.5), 13+r.Intn(8))
		pl.vs = pl.rings[0]
		pl.manyLoops = true
	}
	if pl.obj == "index" {
		k := 2 + r.Intn(4)
		for i := 0; i < k; i++ {
			pl.pool = append(pl.pool, gen.MakeObj(r, gen.Near(r, pl.center, pl.scale*r.Float64()), pl.scale*(0.2+0.8*r.Float64()), 200))
		}
	}
	pt := func() s2.Point {
		switch r.Intn(4) {
		case 0:
			return gen.Uniform(r)
		case 1:
			if len(pl.pool) > 0 { // an exact vertex of one of the indexed shapes
				if o := pl.pool[r.Intn(len(pl.pool))]; len(o.Vertices) > 0 {
					return o.Vertices[r.Intn(len(o.Vertices))]
				}
			}
			return pl.vs[r.Intn(len(pl.vs))]
		default:
			return gen.Near(r, pl.center, pl.scale*1.5*r.Float64())
		}
	}
	nq := 6 + r.Intn(15)
	pl.containsOnly = pl.obj != "index" && r.Intn(3) == 0
	pl.shareOpts = pl.obj == "index" && r.Intn(2) == 0
	for g := 0; g < pl.nG; g++ {
		var qs []query
		for i := 0; i < nq; i++ {
			q := query{p: pt(), q: pt(), model: r.Intn(3)}
			q.cell = s2.CellFromCellID(s2.CellFromPoint(q.p).ID().Parent(r.Intn(31)))
			switch pl.obj {
			case "loop":
				q.kind = []string{"contains", "contains", "containscell", "intersectscell", "relation"}[r.Intn(5)]
			case "polygon":
				q.kind = []string{"contains", "contains", "containscell", "intersectscell", "relation"}[r.Intn(5)]
			default:
				q.kind = []string{"cpq", "cpq", "ceq", "distance", "findedges", "isfresh", "isdistanceless"}[r.Intn(7)]
			}
			if pl.containsOnly {
				q.kind = "contains"
			}
			qs = append(qs, q)
		}
		pl.queries = append(pl.queries, qs)
	}
	for k := 0; k < 4; k++ {
		m := 1 + r.Intn(4)
		for i := 0; i < m; i++ {
			y := 0
			if r.Intn(2) == 0 {
				y = r.Intn(4)
			}
			pl.yields[k] = append(pl.yields[k], y)
		}
	}
	if r.Intn(2) == 0 {
		pl.hold = 20 + r.Intn(200)
	}
	return pl
}

// world holds one instance of the geometry (shared or private).
type world struct {
	loop, other *s2.Loop
	poly, opoly *s2.Polygon
	idx         *s2.ShapeIndex
	shapes      []s2.Shape
	opts        *s2.EdgeQueryOptions // shared by all query objects of this world when the plan says so
}

func (pl *plan) build() *world {
	w := &world{}
	cp := func(v []s2.Point) []s2.Point { return append([]s2.Point(nil), v...) }
	switch pl.obj {
	case "loop":
		w.loop, w.other = s2.LoopFromPoints(cp(pl.vs)), s2.LoopFromPoints(cp(pl.other))
	case "polygon":
		var ls []*s2.Loop
		for _, rg := range pl.rings {
			ls = append(ls, s2.LoopFromPoints(cp(rg)))
		}
		w.poly = s2.PolygonFromLoops(ls)
		w.opoly = s2.PolygonFromLoops([]*s2.Loop{s2.LoopFromPoints(cp(pl.other))})
	default:
		w.idx = s2.NewShapeIndex()
		for _, o := range pl.pool {
			// a private copy of the shape objects too: Loop/Polygon shapes carry their own lazily built index
			var sh s2.Shape
			switch o.Kind {
			case "Loop":
				sh = s2.LoopFromPoints(cp(o.Loops[0]))
			case "LaxLoop":
				sh = s2.LaxLoopFromPoints(cp(o.Loops[0]))
			default:
				sh = o.Shape // immutable value types (lax shapes, polylines, point vectors) and polygons queried only through the index
			}
			w.shapes = append(w.shapes, sh)
			w.idx.Add(sh)
		}
		if pl.shareOpts {
			w.opts = s2.NewClosestEdgeQueryOptions().MaxResults(3).IncludeInteriors(false)
		}
	}
	return w
}

// answer runs one query; query objects are created by the caller (per goroutine).
type qobjs struct {
	cpq [3]*s2.ContainsPointQuery
	ceq *s2.CrossingEdgeQuery
	eq  *s2.EdgeQuery
}

func (w *world) answer(q query, qo *qobjs) string {
	switch q.kind {
	case "contains":
		if w.loop != nil {
			return fmt.Sprint(w.loop.ContainsPoint(q.p))
		}
		return fmt.Sprint(w.poly.ContainsPoint(q.p))
	case "containscell":
		if w.loop != nil {
			return fmt.Sprint(w.loop.ContainsCell(q.cell))
		}
		return fmt.Sprint(w.poly.ContainsCell(q.cell))
	case "intersectscell":
		if w.loop != nil {
			return fmt.Sprint(w.loop.IntersectsCell(q.cell))
		}
		return fmt.Sprint(w.poly.IntersectsCell(q.cell))
	case "relation":
		if w.loop != nil {
			return fmt.Sprint(w.loop.Contains(w.other), w.loop.Intersects(w.other), w.other.Contains(w.loop))
		}
		return fmt.Sprint(w.poly.Contains(w.opoly), w.poly.Intersects(w.opoly))
	case "cpq":
		if qo.cpq[q.model] == nil {
			qo.cpq[q.model] = s2.NewContainsPointQuery(w.idx, []s2.VertexModel{s2.VertexModelSemiOpen, s2.VertexModelOpen, s2.VertexModelClosed}[q.model])
		}
		return fmt.Sprint(qo.cpq[q.model].Contains(q.p), len(qo.cpq[q.model].ContainingShapes(q.p)))
	case "ceq":
		if q.p == q.q {
			return "-"
		}
		if qo.ceq == nil {
			qo.ceq = s2.NewCrossingEdgeQuery(w.idx)
		}
		em := qo.ceq.CrossingsEdgeMap(q.p, q.q, s2.CrossingTypeAll)
		var parts []string
		for i, sh := range w.shapes {
			if es, ok := em[sh]; ok {
				parts = append(parts, fmt.Sprintf("%d:%v", i, es))
			}
		}
		return strings.Join(parts, " ")
	case "distance", "findedges", "isdistanceless":
		if qo.eq == nil {
			o := w.opts
			if o == nil {
				o = s2.NewClosestEdgeQueryOptions().MaxResults(1).IncludeInteriors(false)
			}
			qo.eq = s2.NewClosestEdgeQuery(w.idx, o)
		}
		t := s2.NewMinDistanceToPointTarget(q.p)
		switch q.kind {
		case "distance":
			return fmt.Sprintf("%x", float64(qo.eq.Distance(t)))
		case "isdistanceless":
			return fmt.Sprint(qo.eq.IsDistanceLess(t, s1.ChordAngleFromAngle(0.3)))
		}
		var sb strings.Builder
		for _, r := range qo.eq.FindEdges(t) {
			fmt.Fprintf(&sb, "(%x,%d,%d)", float64(r.Distance()), r.ShapeID(), r.EdgeID())
		}
		return sb.String()
	case "isfresh":
		return fmt.Sprint(w.idx.IsFresh())
	}
	return "?"
}

// ---------- schedule control ----------

type sched struct {
	mu       sync.Mutex
	arrivals []int // point index per arrival, in order
	counts   [4]int
	pl       *plan
	fresh    int32 // set when a goroutine passes beforeUnlock
	inside   int32 // goroutines that passed beforeLock before the index was fresh
	waiting  int32
}

func (s *sched) hook(point string) {
	k := -1
	for i, p := range points {
		if p == point {
			k = i
		}
	}
	if k < 0 {
		return
	}
	s.mu.Lock()
	n := s.counts[k]
	s.counts[k]++
	if len(s.arrivals) < 400 {
		s.arrivals = append(s.arrivals, k)
	}
	s.mu.Unlock()
	ys := s.pl.yields[k]
	for i := 0; i < ys[n%len(ys)]; i++ {
		runtime.Gosched()
	}
	switch k {
	case 1:
		if atomic.LoadInt32(&s.fresh) == 0 {
			atomic.AddInt32(&s.inside, 1)
		}
		atomic.AddInt32(&s.waiting, 1)
	case 2:
		// the builder: give the other goroutines the chance to pass the stale check and queue on the lock
		for i := 0; i < s.pl.hold && atomic.LoadInt32(&s.waiting) < int32(s.pl.nG); i++ {
			runtime.Gosched()
		}
	case 3:
		atomic.StoreInt32(&s.fresh, 1)
	}
}

// ---------- trial ----------

type opIn struct {
	Kind       string
	ID         int
	Degenerate bool
}

func oneTrial(c *mon.Case) {
	pl := genPlan(c.R)
	if c.I%500 == 0 {
		c.Sample(pl.describe())
	}
	// serial answers on a private copy
	priv := pl.build()
	serial := make([][]string, pl.nG)
	for g := range pl.queries {
		qo := &qobjs{}
		for _, q := range pl.queries[g] {
			if q.kind == "isfresh" {
				serial[g] = append(serial[g], "")
				continue
			}
			serial[g] = append(serial[g], priv.answer(q, qo))
		}
	}
	shared := pl.build()
	if pl.prebuilt {
		switch pl.obj {
		case "loop":
			shared.loop.ContainsPoint(pl.center)
			shared.other.ContainsPoint(pl.center)
		case "polygon":
			shared.poly.ContainsPoint(pl.center)
			shared.opoly.ContainsPoint(pl.center)
		default:
			shared.idx.Build()
		}
	}
	sc := &sched{pl: pl}
	s2.VerifSetSched(sc.hook)
	defer s2.VerifSetSched(nil)
	var clock int64
	got := make([][]string, pl.nG)
	type rec struct {
		g, i      int
		call, ret int64
		out       string
		kind      string
	}
	recs := make([][]rec, pl.nG)
	panics := make([]string, pl.nG)
	start := make(chan struct{})
	var wg sync.WaitGroup
	for g := 0; g < pl.nG; g++ {
		wg.Add(1)
		go func(g int) {
			defer wg.Done()
			defer func() {
				if r := recover(); r != nil {
					panics[g] = fmt.Sprintf("%v in %s", r, mon.LibFrame())
				}
			}()
			qo := &qobjs{}
			<-start
			for i, q := range pl.queries[g] {
				t0 := atomic.AddInt64(&clock, 1)
				out := shared.answer(q, qo)
				t1 := atomic.AddInt64(&clock, 1)
				got[g] = append(got[g], out)
				recs[g] = append(recs[g], rec{g, i, t0, t1, out, q.kind})
			}
		}(g)
	}
	close(start)
	wg.Wait()
	s2.VerifSetSched(nil)

	det := func(extra map[string]any) any {
		d := map[string]any{"trial": pl.describe()}
		for k, v := range extra {
			d[k] = v
		}
		return d
	}
	for g := range panics {
		if panics[g] != "" {
			c.Violation("concurrent/panic/"+mon.Shorten(panics[g][strings.LastIndex(panics[g], " in ")+4:]), "a goroutine panicked during a read-only query: "+panics[g], det(nil))
		}
	}
	for g := range got {
		for i := range got[g] {
			q := pl.queries[g][i]
			if q.kind == "isfresh" {
				continue
			}
			c.Count("queries.compared", 1)
			if got[g][i] != serial[g][i] {
				c.Violation("concurrent/"+pl.obj+"/"+q.kind+"/answer-differs-from-serial/wrong-answer", fmt.Sprintf("goroutine %d query %d (%s) returned %s concurrently, %s in a single-threaded run", g, i, q.kind, trunc(got[g][i]), trunc(serial[g][i])), det(map[string]any{"goroutine": g, "query": i}))
			}
		}
	}
	// arrival sequence
	sc.mu.Lock()
	h := fnv.New64a()
	for _, a := range sc.arrivals {
		h.Write([]byte{byte(a)})
	}
	arr := len(sc.arrivals)
	sc.mu.Unlock()
	c.Count("schedule_point_arrivals", int64(arr))
	if atomic.LoadInt32(&sc.inside) >= 2 {
		c.Count("trials.contended_build", 1)
		c.Distinct(h.Sum64())
	}
	// linearizability of the shared index history
	if pl.obj == "index" {
		var ops []porcupine.Operation
		for g := range recs {
			for _, r := range recs[g] {
				ok := "ok"
				if r.kind != "isfresh" && r.out != serial[r.g][r.i] {
					ok = "wrong"
				}
				ops = append(ops, porcupine.Operation{ClientId: g, Input: opIn{r.kind, r.i, r.kind == "ceq" && pl.queries[r.g][r.i].p == pl.queries[r.g][r.i].q}, Call: r.call, Output: map[bool]string{true: r.out, false: ok}[r.kind == "isfresh"], Return: r.ret})
			}
		}
		init := 0
		if pl.prebuilt {
			init = 1
		}
		// ContainsPointQuery and CrossingEdgeQuery obtain an iterator, which applies pending updates: after
		// they return the index is fresh. An EdgeQuery may answer by brute force without touching the
		// index cells, so it may or may not leave the index fresh. IsFresh observes the state.
		nm := porcupine.NondeterministicModel{
			Init: func() []interface{} { return []interface{}{init} },
			Step: func(state, input, output interface{}) []interface{} {
				st := state.(int)
				in := input.(opIn)
				switch in.Kind {
				case "isfresh":
					if output.(string) == fmt.Sprint(st == 1) {
						return []interface{}{st}
					}
					return nil
				case "cpq", "ceq":
					if output.(string) != "ok" {
						return nil
					}
					if in.Kind == "ceq" && in.Degenerate {
						return []interface{}{st}
					}
					return []interface{}{1}
				default:
					if output.(string) != "ok" {
						return nil
					}
					if st == 1 {
						return []interface{}{1}
					}
					return []interface{}{0, 1}
				}
			},
			Equal: func(a, b interface{}) bool { return a.(int) == b.(int) },
		}
		model := nm.ToModel()
		res := porcupine.CheckOperationsTimeout(model, ops, 30*time.Second)
		c.Count("linearizability.checked", 1)
		switch res {
		case porcupine.Illegal:
			c.Violation("concurrent/index/not-linearizable/wrong-answer", "the history of queries and IsFresh observations on the shared index has no linearization (an IsFresh() == false was observed after a query had completed, or an answer differs from the serial one)", det(map[string]any{"operations": len(ops)}))
		case porcupine.Unknown:
			c.M.Inconclusive("porcupine timed out on a history of " + fmt.Sprint(len(ops)) + " operations")
		}
	}
	_ = math.Pi
}

func trunc(s string) string {
	if len(s) > 200 {
		return s[:200] + "..."
	}
	return s
}
