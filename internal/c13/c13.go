// Package c13 monitors C13: answers depend on the current geometry and the
// caller's options only, never on call history; no sequence hangs or panics.
package c13

import (
	"fmt"
	"math"
	"math/rand"
	"sort"
	"strings"

	"github.com/golang/geo/s1"
	"github.com/golang/geo/s2"

	"verif/internal/gen"
	"verif/internal/mon"
)

const stream = "history"

func Run(m *mon.M) {
	m.Rule = "operation words (length 4..16) over {Add shape, Build, Reset, point/crossing/edge queries through reused query objects, EdgeQuery.FindEdges/Distance/IsDistanceLess/IsDistanceGreater/conservative forms with changing targets, Loop.Invert, Polygon.Invert}; after every query the same question is put to freshly built objects holding the same geometry and options. A history is non-trivial and distinct when its word is new AND it contains a second Build after an Add, a Reset, an Invert after a query, or a threshold/Distance call followed by FindEdges on the same query object"
	m.Assumptions = []string{"each history runs in a child process whose only goroutine is the history itself, so a self-deadlock is reported by the Go runtime ('all goroutines are asleep'); RLIMIT_CPU 600 s per batch bounds busy loops; fresh objects are the reference (their correctness is C04/C06/C08's subject)"}
	total := int64(m.N(80000, 3000000))
	onDeath := func(d mon.Death) (string, string, any) {
		pl := genPlan(rand.New(rand.NewSource(mon.CaseSeed(m.Seed, stream, d.Index))))
		kind := "fatal"
		switch d.Kind {
		case "deadlock":
			kind = "hang/deadlock"
		case "killed":
			kind = "hang/killed"
		}
		return "history/" + kind + "/" + mon.Shorten(d.Stderr), fmt.Sprintf("the process running this history died (%s): %s", d.Exit, d.Stderr),
			map[string]any{"history": pl.word(), "shapes": pl.kinds(), "child": d.Exit}
	}
	if st, idx, ok := m.ReplayIndex(); ok {
		if st == stream {
			mon.RunChildren(m, "c13", stream, idx, idx+1, 1, onDeath)
		}
		return
	}
	mon.RunChildren(m, "c13", stream, 0, total, 16, onDeath)
	m.Require("ops.second_build_after_add", 500)
	m.Require("ops.reset", 300)
	m.Require("ops.invert_after_query", 300)
	m.Require("ops.findedges_after_threshold", 300)
	m.Require("queries.compared", 10000)
}

func Worker(args []string) { mon.ChildMain("C13", stream, args, 8<<30, 600, oneHistory) }

// ---------- plan ----------

type op struct {
	kind string // add build reset cpq ceq find dist less conservative invertloop invertpoly loopq polyq looprel
	arg  int
	p, q s2.Point
	lim  s1.ChordAngle
	tk   int // target kind for edge queries: 0 point 1 edge 2 cell
	cell s2.Cell
	far  bool // furthest query
}

type plan struct {
	pool []*gen.Obj
	ops  []op
	// edge query options chosen by the caller
	maxResults int
	limit      s1.ChordAngle
	interiors  bool
	brute      bool
	nilOpts    bool // the query under test is built with nil options (the reference with explicit defaults)
	tgt        []s2.Point // vertices of the small polyline used as ShapeIndex target
	polyMulti  bool // invert mode: the polygon has several disjoint shells
	polyQ      []s2.Point // invert mode: a small loop inside the first shell (relation queries)
	// standalone loop / polygon for the invert alphabet
	loopVs []s2.Point
	other  []s2.Point
	polyLs [][]s2.Point
	probes []s2.Point
	center s2.Point
	scale  float64
	mode   int // 0 index histories, 1 loop/polygon invert histories
}

func (pl *plan) word() []string {
	var w []string
	for _, o := range pl.ops {
		s := o.kind
		if o.kind == "add" {
			s += fmt.Sprintf("(%s)", pl.pool[o.arg].Kind)
		}
		if o.far {
			s += "[furthest]"
		}
		w = append(w, s)
	}
	return w
}

func (pl *plan) kinds() string {
	var k []string
	for _, o := range pl.pool {
		k = append(k, o.Kind)
	}
	return strings.Join(k, " ")
}

func genPlan(r *rand.Rand) *plan {
	pl := &plan{}
	pl.center = gen.RandCenter(r)
	pl.scale = gen.LogUniform(r, 1e-4, 0.8)
	pl.mode = 0
	if r.Intn(4) == 0 {
		pl.mode = 1
	}
	pt := func() s2.Point {
		switch r.Intn(3) {
		case 0:
			return gen.Near(r, pl.center, pl.scale*2*r.Float64())
		case 1:
			return gen.Uniform(r)
		default:
			return gen.Near(r, pl.center, pl.scale*0.5*r.Float64())
		}
	}
	if pl.mode == 1 {
		n := 4 + r.Intn(12)
		if r.Intn(2) == 0 {
			n = 33 + r.Intn(60) // index path
		}
		sp := gen.StarLoop(r, pl.center, n, pl.scale*0.7, pl.scale)
		pl.loopVs = sp.Vs
		in := gen.StarLoop(r, gen.Near(r, pl.center, sp.RMin*0.3*r.Float64()), 4+r.Intn(40), sp.RMin*0.2, sp.RMin*0.5)
		pl.other = in.Vs
		pl.polyLs = [][]s2.Point{sp.Vs, in.Vs}
		qc := pl.center // centre of the small polygon used for relation queries: inside the hole
		if r.Intn(2) == 0 { // several disjoint shells, the first one optionally with a hole
			pl.polyMulti = true
			isl := gen.Islands(r, pl.center, pl.scale, 2+r.Intn(3))
			pl.polyLs = isl
			x, y, z := gen.Frame(pl.center)
			qc = gen.AtPolar(x, y, z, pl.scale, 2*math.Pi*float64(r.Intn(len(isl)))/float64(len(isl))) // centre of one of the shells
		}
		pl.polyQ = gen.StarLoop(r, qc, 3+r.Intn(5), pl.scale*1e-3, pl.scale*2e-3).Vs
		for i := 0; i < 10; i++ {
			pl.probes = append(pl.probes, pt())
		}
		pl.probes = append(pl.probes, gen.BoundaryProbes(r, sp.Vs, 6)...)
		steps := 4 + r.Intn(10)
		for s := 0; s < steps; s++ {
			k := []string{"invertloop", "loopq", "looprel", "invertpoly", "polyq", "invertloop", "loopq", "polyrel", "invertpoly", "polyrel"}[r.Intn(10)]
			pl.ops = append(pl.ops, op{kind: k, p: pl.probes[r.Intn(len(pl.probes))]})
		}
		return pl
	}
	if r.Intn(4) == 0 { // the first shapes have no edges at all (a build over them produces no cells)
		for k := 0; k < 1+r.Intn(2); k++ {
			var sh s2.Shape
			kind := ""
			switch r.Intn(6) {
			case 0:
				sh, kind = s2.EmptyLoop(), "EmptyLoop"
			case 1:
				sh, kind = s2.FullLoop(), "FullLoop"
			case 2:
				pl0 := s2.Polyline{}
				sh, kind = &pl0, "EmptyPolyline"
			case 3:
				sh, kind = s2.PolygonFromLoops(nil), "EmptyPolygon"
			case 4:
				sh, kind = s2.FullPolygon(), "FullPolygon"
			default:
				pv := s2.PointVector{}
				sh, kind = &pv, "EmptyPointVector"
			}
			pl.pool = append(pl.pool, &gen.Obj{Shape: sh, Kind: kind})
		}
	}
	np := 2 + r.Intn(4)
	for i := 0; i < np; i++ {
		pl.pool = append(pl.pool, gen.MakeObj(r, gen.Near(r, pl.center, pl.scale*r.Float64()), pl.scale*(0.2+0.8*r.Float64()), 60))
	}
	pl.maxResults = []int{1, 2, 5, math.MaxInt32}[r.Intn(4)]
	pl.limit = s1.InfChordAngle()
	if r.Intn(3) == 0 {
		pl.limit = s1.ChordAngleFromAngle(s1.Angle(pl.scale * (0.2 + 2*r.Float64())))
	}
	pl.interiors = r.Intn(2) == 0
	pl.brute = r.Intn(5) == 0
	if r.Intn(4) == 0 { // nil options == explicit defaults
		pl.nilOpts, pl.maxResults, pl.limit, pl.interiors, pl.brute = true, math.MaxInt32, s1.InfChordAngle(), true, false
	}
	tp := pt()
	pl.tgt = []s2.Point{tp, gen.Near(r, tp, pl.scale*0.1), gen.Near(r, tp, pl.scale*0.2)}
	steps := 4 + r.Intn(13)
	nextAdd := 0
	for s := 0; s < steps; s++ {
		var o op
		switch k := r.Intn(14); {
		case k < 3 && nextAdd < len(pl.pool):
			o = op{kind: "add", arg: nextAdd}
			nextAdd++
		case k < 5:
			o = op{kind: "build"}
		case k == 5 && r.Intn(2) == 0:
			o = op{kind: "remove", arg: r.Intn(1 << 20)}
		case k == 5 && r.Intn(3) == 0:
			o = op{kind: "reset"}
			// after a reset the same pool shapes may be added again from the start
			nextAdd = 0
		case k == 13 && r.Intn(2) == 0:
			// a shape is queried, removed, added again (it gets a new id), the index is built, and the same query
			// objects are asked again
			pl.ops = append(pl.ops, op{kind: "ceq", p: pt(), q: pt()}, op{kind: "cpq", p: pt()}, op{kind: "remove", arg: r.Intn(1 << 20)})
			if r.Intn(2) == 0 {
				pl.ops = append(pl.ops, op{kind: "build"}, op{kind: "ceq", p: pt(), q: pt()})
			}
			pl.ops = append(pl.ops, op{kind: "readd", arg: r.Intn(1 << 20)}, op{kind: "build"}, op{kind: "ceq", p: pt(), q: pt()}, op{kind: "ceq", p: pt(), q: pt()})
			o = op{kind: "cpq", p: pt()}
		case k == 12 && r.Intn(3) == 0:
			o = op{kind: "dupadd", arg: r.Intn(1 << 20)} // a shape object that is already in the index is added once more
		case k < 8:
			o = op{kind: "cpq", p: pt()}
		case k == 8:
			o = op{kind: "ceq", p: pt(), q: pt()}
		default:
			o = op{kind: []string{"find", "dist", "less", "conservative", "find"}[r.Intn(5)], p: pt(), q: pt(), tk: r.Intn(4), far: r.Intn(4) == 0}
			o.lim = s1.ChordAngleFromAngle(s1.Angle(pl.scale * 3 * r.Float64()))
			if r.Intn(4) == 0 {
				o.lim = s1.ChordAngle(r.Float64() * 4)
			}
			if r.Intn(6) == 0 { // the limit at which no edge can qualify: the search returns at once
				o.lim = 0
				if o.far {
					o.lim = s1.StraightChordAngle
				}
			}
			o.cell = s2.CellFromCellID(s2.CellFromPoint(o.p).ID().Parent(r.Intn(31)))
		}
		pl.ops = append(pl.ops, o)
	}
	// every history ends with one query of each family
	pl.ops = append(pl.ops, op{kind: "cpq", p: pt()}, op{kind: "ceq", p: pt(), q: pt()}, op{kind: "find", p: pt(), q: pt(), tk: r.Intn(3), cell: s2.CellFromCellID(s2.CellFromPoint(pt()).ID().Parent(r.Intn(31)))})
	return pl
}

// ---------- execution ----------

type eqHolder struct {
	q   *s2.EdgeQuery
	far bool
}

func (pl *plan) newEQ(idx *s2.ShapeIndex, far bool, reference bool) *s2.EdgeQuery {
	if pl.nilOpts && !reference {
		if far {
			return s2.NewFurthestEdgeQuery(idx, nil)
		}
		return s2.NewClosestEdgeQuery(idx, nil)
	}
	if far {
		o := s2.NewFurthestEdgeQueryOptions().MaxResults(pl.maxResults).IncludeInteriors(pl.interiors).UseBruteForce(pl.brute)
		return s2.NewFurthestEdgeQuery(idx, o)
	}
	o := s2.NewClosestEdgeQueryOptions().MaxResults(pl.maxResults).DistanceLimit(pl.limit).IncludeInteriors(pl.interiors).UseBruteForce(pl.brute)
	return s2.NewClosestEdgeQuery(idx, o)
}

// resStr renders results with the shape named by its position in the plan's pool (shape ids differ between
// an index that had shapes removed and a fresh index holding the same shapes).
func resStr(rs []s2.EdgeQueryResult, name func(int32) int) string {
	var sb strings.Builder
	for _, r := range rs {
		fmt.Fprintf(&sb, "(%x,%d,%d)", float64(r.Distance()), name(r.ShapeID()), r.EdgeID())
	}
	return sb.String()
}

// tcache holds the ShapeIndex target objects of one history: the query under test reuses them from call
// to call (a target is part of the state a caller may keep), the reference always builds fresh ones.
type tcache struct {
	min *s2.MinDistanceToShapeIndexTarget
	max *s2.MaxDistanceToShapeIndexTarget
}

func edgeQuery(q *s2.EdgeQuery, o op, what string, tgt []s2.Point, tc *tcache, name func(int32) int) string {
	e := s2.Edge{V0: o.p, V1: o.q}
	var tidx *s2.ShapeIndex
	if o.tk == 3 {
		tidx = s2.NewShapeIndex()
		tidx.Add(s2.LaxPolylineFromPoints(append([]s2.Point(nil), tgt...)))
		for k := 0; k+1 < len(tgt); k++ { // a few more shapes, so that the target's own search has something to get wrong
			tidx.Add(s2.LaxPolylineFromPoints([]s2.Point{tgt[k+1], tgt[k]}))
		}
	}
	call := func(find func() []s2.EdgeQueryResult, dist func() s1.ChordAngle, less func() bool, cons func() bool) string {
		switch what {
		case "find":
			return resStr(find(), name)
		case "dist":
			return fmt.Sprintf("%x", float64(dist()))
		case "less":
			return fmt.Sprint(less())
		}
		return fmt.Sprint(cons())
	}
	if o.far {
		switch o.tk {
		case 0:
			t := func() *s2.MaxDistanceToPointTarget { return s2.NewMaxDistanceToPointTarget(o.p) }
			return call(func() []s2.EdgeQueryResult { return q.FindEdges(t()) }, func() s1.ChordAngle { return q.Distance(t()) }, func() bool { return q.IsDistanceGreater(t(), o.lim) }, func() bool { return q.IsConservativeDistanceGreaterOrEqual(t(), o.lim) })
		case 1:
			t := func() *s2.MaxDistanceToEdgeTarget { return s2.NewMaxDistanceToEdgeTarget(e) }
			return call(func() []s2.EdgeQueryResult { return q.FindEdges(t()) }, func() s1.ChordAngle { return q.Distance(t()) }, func() bool { return q.IsDistanceGreater(t(), o.lim) }, func() bool { return q.IsConservativeDistanceGreaterOrEqual(t(), o.lim) })
		case 3:
			t := func() *s2.MaxDistanceToShapeIndexTarget {
				if tc == nil {
					return s2.NewMaxDistanceToShapeIndexTarget(tidx)
				}
				if tc.max == nil {
					tc.max = s2.NewMaxDistanceToShapeIndexTarget(tidx)
				}
				return tc.max
			}
			return call(func() []s2.EdgeQueryResult { return q.FindEdges(t()) }, func() s1.ChordAngle { return q.Distance(t()) }, func() bool { return q.IsDistanceGreater(t(), o.lim) }, func() bool { return q.IsConservativeDistanceGreaterOrEqual(t(), o.lim) })
		}
		t := func() *s2.MaxDistanceToCellTarget { return s2.NewMaxDistanceToCellTarget(o.cell) }
		return call(func() []s2.EdgeQueryResult { return q.FindEdges(t()) }, func() s1.ChordAngle { return q.Distance(t()) }, func() bool { return q.IsDistanceGreater(t(), o.lim) }, func() bool { return q.IsConservativeDistanceGreaterOrEqual(t(), o.lim) })
	}
	switch o.tk {
	case 0:
		t := func() *s2.MinDistanceToPointTarget { return s2.NewMinDistanceToPointTarget(o.p) }
		return call(func() []s2.EdgeQueryResult { return q.FindEdges(t()) }, func() s1.ChordAngle { return q.Distance(t()) }, func() bool { return q.IsDistanceLess(t(), o.lim) }, func() bool { return q.IsConservativeDistanceLessOrEqual(t(), o.lim) })
	case 1:
		t := func() *s2.MinDistanceToEdgeTarget { return s2.NewMinDistanceToEdgeTarget(e) }
		return call(func() []s2.EdgeQueryResult { return q.FindEdges(t()) }, func() s1.ChordAngle { return q.Distance(t()) }, func() bool { return q.IsDistanceLess(t(), o.lim) }, func() bool { return q.IsConservativeDistanceLessOrEqual(t(), o.lim) })
	case 3:
		t := func() *s2.MinDistanceToShapeIndexTarget {
			if tc == nil {
				return s2.NewMinDistanceToShapeIndexTarget(tidx)
			}
			if tc.min == nil {
				tc.min = s2.NewMinDistanceToShapeIndexTarget(tidx)
			}
			return tc.min
		}
		return call(func() []s2.EdgeQueryResult { return q.FindEdges(t()) }, func() s1.ChordAngle { return q.Distance(t()) }, func() bool { return q.IsDistanceLess(t(), o.lim) }, func() bool { return q.IsConservativeDistanceLessOrEqual(t(), o.lim) })
	}
	t := func() *s2.MinDistanceToCellTarget { return s2.NewMinDistanceToCellTarget(o.cell) }
	return call(func() []s2.EdgeQueryResult { return q.FindEdges(t()) }, func() s1.ChordAngle { return q.Distance(t()) }, func() bool { return q.IsDistanceLess(t(), o.lim) }, func() bool { return q.IsConservativeDistanceLessOrEqual(t(), o.lim) })
}

func crossStr(em s2.EdgeMap, shapes []s2.Shape) string {
	var parts []string
	for i, sh := range shapes {
		if es, ok := em[sh]; ok {
			parts = append(parts, fmt.Sprintf("%d:%v", i, es))
		}
	}
	sort.Strings(parts)
	return strings.Join(parts, " ")
}

func oneHistory(c *mon.Case) {
	pl := genPlan(c.R)
	if c.I%5000 == 0 {
		c.Sample(map[string]any{"history": pl.word(), "shapes": pl.kinds(), "mode": pl.mode})
	}
	if pl.mode == 1 {
		invertHistory(c, pl)
		return
	}
	idx := s2.NewShapeIndex()
	var cur []int // pool indices currently in the index, in shape id order
	var cpq *s2.ContainsPointQuery
	var ceq *s2.CrossingEdgeQuery
	eqs := map[bool]*s2.EdgeQuery{}
	targets := &tcache{}
	built := false
	addedSinceBuild := false
	thresholdBeforeFind := map[bool]bool{}
	var done []string
	nontrivial := false
	fresh := func() (*s2.ShapeIndex, []s2.Shape) {
		f := s2.NewShapeIndex()
		var shapes []s2.Shape
		for _, k := range cur {
			f.Add(pl.pool[k].Shape)
			shapes = append(shapes, pl.pool[k].Shape)
		}
		return f, shapes
	}
	report := func(o op, what, got, want string) {
		c.Violation("history/"+what+"/answer-differs-from-fresh-objects/wrong-answer", fmt.Sprintf("%s after %v returned %s; fresh objects holding the same geometry and options return %s", what, done, trunc(got), trunc(want)),
			map[string]any{"history": append(append([]string{}, done...), o.kind), "full_plan": pl.word(), "shapes": pl.kinds(), "got": trunc(got), "want": trunc(want),
				"edge_query_options": map[string]any{"max_results": pl.maxResults, "limit": fmt.Sprintf("%x", float64(pl.limit)), "interiors": pl.interiors, "brute": pl.brute}})
	}
	nameIn := func(ix *s2.ShapeIndex) func(int32) int {
		return func(id int32) int {
			sh := ix.Shape(id)
			for k, o := range pl.pool {
				if o.Shape == sh {
					return k
				}
			}
			return -1
		}
	}
	// Query objects survive a modification of the index only if the index has been built again before they
	// are used (an EdgeQuery additionally gets Reset(), as its documentation of cached state implies);
	// used on a stale index they are created anew, like the reference objects.
	gen0, cpqGen, ceqGen := 0, 0, 0
	eqGen := map[bool]int{}
	modified := func() {
		gen0++
		thresholdBeforeFind = map[bool]bool{}
		addedSinceBuild = true
	}
	var removed []int
	for _, o := range pl.ops {
		switch o.kind {
		case "add":
			idx.Add(pl.pool[o.arg].Shape)
			cur = append(cur, o.arg)
			modified()
		case "remove":
			if len(cur) == 0 {
				continue
			}
			k := o.arg % len(cur)
			for j := range cur { // Remove(shape) takes out the occurrence with the lowest id if the object was added twice
				if cur[j] == cur[k] {
					k = j
					break
				}
			}
			idx.Remove(pl.pool[cur[k]].Shape)
			removed = append(removed, cur[k])
			cur = append(cur[:k:k], cur[k+1:]...)
			modified()
			c.Count("ops.remove", 1)
			nontrivial = true
		case "dupadd":
			if len(cur) == 0 {
				continue
			}
			k := cur[o.arg%len(cur)]
			idx.Add(pl.pool[k].Shape)
			cur = append(cur, k)
			modified()
			c.Count("ops.same_shape_object_added_twice", 1)
			nontrivial = true
		case "readd":
			if len(removed) == 0 {
				continue
			}
			k := o.arg % len(removed)
			idx.Add(pl.pool[removed[k]].Shape)
			cur = append(cur, removed[k])
			removed = append(removed[:k:k], removed[k+1:]...)
			modified()
			c.Count("ops.removed_shape_added_again", 1)
			nontrivial = true
		case "build":
			if built && addedSinceBuild {
				c.Count("ops.second_build_after_add", 1)
				nontrivial = true
			}
			idx.Build()
			built, addedSinceBuild = true, false
		case "reset":
			idx.Reset()
			cur, removed = nil, nil
			cpq, ceq, eqs = nil, nil, map[bool]*s2.EdgeQuery{}
			targets = &tcache{}
			thresholdBeforeFind = map[bool]bool{}
			c.Count("ops.reset", 1)
			nontrivial = true
			built = false
		case "cpq":
			if cpq != nil && cpqGen != gen0 {
				if !idx.IsFresh() {
					cpq = nil
				} else {
					c.Count("ops.query_reused_after_modification_and_build", 1)
					nontrivial = true
				}
			}
			if cpq == nil {
				cpq = s2.NewContainsPointQuery(idx, s2.VertexModelSemiOpen)
				built, addedSinceBuild = true, false
			}
			cpqGen = gen0
			f, shapes := fresh()
			fq := s2.NewContainsPointQuery(f, s2.VertexModelSemiOpen)
			got := fmt.Sprint(cpq.Contains(o.p), len(cpq.ContainingShapes(o.p)))
			want := fmt.Sprint(fq.Contains(o.p), len(fq.ContainingShapes(o.p)))
			_ = shapes
			c.Count("queries.compared", 1)
			if got != want {
				report(o, "ContainsPointQuery", got, want)
			}
		case "ceq":
			if o.p == o.q {
				continue
			}
			if ceq != nil && ceqGen != gen0 {
				if !idx.IsFresh() {
					ceq = nil
				} else {
					c.Count("ops.query_reused_after_modification_and_build", 1)
					nontrivial = true
				}
			}
			if ceq == nil {
				ceq = s2.NewCrossingEdgeQuery(idx)
				built, addedSinceBuild = true, false
			}
			ceqGen = gen0
			f, shapes := fresh()
			fq := s2.NewCrossingEdgeQuery(f)
			got := crossStr(ceq.CrossingsEdgeMap(o.p, o.q, s2.CrossingTypeAll), shapes)
			want := crossStr(fq.CrossingsEdgeMap(o.p, o.q, s2.CrossingTypeAll), shapes)
			c.Count("queries.compared", 1)
			if got != want {
				report(o, "CrossingEdgeQuery", got, want)
			}
		default: // edge queries
			if o.tk == 1 && (o.p == o.q || o.p.Add(o.q.Vector).Norm2() < 1e-6) {
				continue
			}
			q := eqs[o.far]
			if q != nil && eqGen[o.far] != gen0 {
				if !idx.IsFresh() || c.R.Intn(2) == 0 {
					q = nil
				} else {
					q.Reset()
					c.Count("ops.edgequery_reset_after_modification", 1)
					nontrivial = true
				}
			}
			if q == nil {
				q = pl.newEQ(idx, o.far, false)
				eqs[o.far] = q
			}
			eqGen[o.far] = gen0
			built, addedSinceBuild = true, false
			f, _ := fresh()
			fq := pl.newEQ(f, o.far, true)
			got := edgeQuery(q, o, o.kind, pl.tgt, targets, nameIn(idx))
			want := edgeQuery(fq, o, o.kind, pl.tgt, nil, nameIn(f))
			if o.tk == 3 {
				c.Count("ops.index_target", 1)
			}
			if pl.nilOpts {
				c.Count("ops.nil_options_query", 1)
			}
			c.Count("queries.compared", 1)
			if o.kind == "find" && thresholdBeforeFind[o.far] {
				c.Count("ops.findedges_after_threshold", 1)
				nontrivial = true
			}
			if o.kind != "find" {
				thresholdBeforeFind[o.far] = true
			}
			if got != want {
				name := map[string]string{"find": "EdgeQuery.FindEdges", "dist": "EdgeQuery.Distance", "less": "EdgeQuery.IsDistanceLess-or-Greater", "conservative": "EdgeQuery.IsConservativeDistance"}[o.kind]
				report(o, name, got, want)
			}
		}
		s := o.kind
		if o.far {
			s += "[furthest]"
		}
		done = append(done, s)
	}
	if nontrivial {
		c.Distinct(uint64(c.I))
	}
}

func trunc(s string) string {
	if len(s) > 300 {
		return s[:300] + "..."
	}
	return s
}

// invertHistory: Loop/Polygon Invert interleaved with queries.
func invertHistory(c *mon.Case, pl *plan) {
	loop := s2.LoopFromPoints(append([]s2.Point(nil), pl.loopVs...))
	other := s2.LoopFromPoints(append([]s2.Point(nil), pl.other...))
	mkPoly := func(inv bool) *s2.Polygon {
		var ls []*s2.Loop
		for _, l := range pl.polyLs {
			ls = append(ls, s2.LoopFromPoints(append([]s2.Point(nil), l...)))
		}
		p := s2.PolygonFromLoops(ls)
		if inv {
			p.Invert()
		}
		return p
	}
	poly := mkPoly(false)
	// the same region built without ever calling Invert: reversing one outermost shell complements the
	// parity of every point, and PolygonFromLoops works out the nesting again
	mkPolyNoInvert := func(inv bool) *s2.Polygon {
		var ls []*s2.Loop
		for i, l := range pl.polyLs {
			vs := append([]s2.Point(nil), l...)
			if inv && i == 0 {
				vs = gen.Reversed(vs)
			}
			ls = append(ls, s2.LoopFromPoints(vs))
		}
		return s2.PolygonFromLoops(ls)
	}
	polyQ := s2.PolygonFromLoops([]*s2.Loop{s2.LoopFromPoints(append([]s2.Point(nil), pl.polyQ...))})
	loopInv, polyInv := false, false
	queried := false
	var done []string
	freshLoop := func() *s2.Loop {
		vs := pl.loopVs
		if loopInv {
			vs = gen.Reversed(vs)
		}
		return s2.LoopFromPoints(append([]s2.Point(nil), vs...))
	}
	report := func(what, got, want string) {
		c.Violation("invert-history/"+what+"/answer-differs-from-fresh-objects/wrong-answer", fmt.Sprintf("%s after %v returned %s; a fresh object with the same region returns %s", what, done, got, want),
			map[string]any{"history": append([]string{}, done...), "loop_vertices": len(pl.loopVs), "plan": pl.word()})
	}
	nontrivial := false
	for _, o := range pl.ops {
		switch o.kind {
		case "invertloop":
			if queried {
				c.Count("ops.invert_after_query", 1)
				nontrivial = true
			}
			loop.Invert()
			loopInv = !loopInv
		case "invertpoly":
			if queried {
				c.Count("ops.invert_after_query", 1)
				nontrivial = true
			}
			poly.Invert()
			polyInv = !polyInv
		case "loopq":
			queried = true
			fl := freshLoop()
			for _, p := range pl.probes {
				if g, w := loop.ContainsPoint(p), fl.ContainsPoint(p); g != w {
					report("Loop.ContainsPoint", fmt.Sprint(g), fmt.Sprint(w))
					break
				}
			}
			c.Count("queries.compared", 1)
		case "looprel":
			queried = true
			fl := freshLoop()
			g := fmt.Sprint(loop.Contains(other), loop.Intersects(other), other.Contains(loop))
			w := fmt.Sprint(fl.Contains(other), fl.Intersects(other), other.Contains(fl))
			c.Count("queries.compared", 1)
			if g != w {
				report("Loop.Contains/Intersects", g, w)
			}
		case "polyq":
			queried = true
			fp, fn := mkPoly(polyInv), mkPolyNoInvert(polyInv)
			for _, p := range pl.probes {
				if g, w, w2 := poly.ContainsPoint(p), fp.ContainsPoint(p), fn.ContainsPoint(p); g != w || g != w2 {
					report("Polygon.ContainsPoint", fmt.Sprint(g), fmt.Sprint(w, w2))
					break
				}
			}
			c.Count("queries.compared", 1)
		case "polyrel":
			queried = true
			fn := mkPolyNoInvert(polyInv)
			g := fmt.Sprint(poly.Contains(polyQ), poly.Intersects(polyQ), polyQ.Contains(poly), polyQ.Intersects(poly))
			w := fmt.Sprint(fn.Contains(polyQ), fn.Intersects(polyQ), polyQ.Contains(fn), polyQ.Intersects(fn))
			c.Count("queries.compared", 1)
			c.Count("ops.polygon_relation", 1)
			if g != w {
				report("Polygon.Contains/Intersects", g, w)
			}
		}
		done = append(done, o.kind)
	}
	if nontrivial {
		c.Distinct(uint64(c.I))
	}
}
