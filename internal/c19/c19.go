// Package c19 monitors C19: interval, rectangle and cap algebra is sound with
// respect to point membership.
package c19

import (
	"fmt"
	"math"
	"math/rand"
	"sort"

	"github.com/golang/geo/r1"
	"github.com/golang/geo/r2"
	"github.com/golang/geo/s1"
	"github.com/golang/geo/s2"

	"verif/internal/gen"
	"verif/internal/mon"
	"verif/internal/ref"
)

func Run(m *mon.M) {
	m.Rule = "pairs of intervals/rectangles/caps with endpoints from {+-pi, +-pi/2, 0, +-1..3 ulps of those, random}, incl. empty/full/singleton/inverted; probes are every endpoint, its +-1 ulp neighbours and midpoints (grid of those for rectangles); a pair is non-trivial and distinct when its bit pattern is new AND at least one operand is special (empty, full, singleton, inverted or touching +-pi / +-pi/2) or the operands share an endpoint"
	m.Assumptions = []string{"membership of a point in a single interval is the documented closed-interval definition (lo<=p<=hi, wrapped for inverted circle intervals, -pi identified with pi), evaluated by the monitor itself", "caps: 320-bit chord lengths from internal/ref with 1e-14 slack for the documented float rounding of chord arithmetic"}
	m.Require("s1.pairs", 1000)
	m.Require("r1.pairs", 1000)
	m.Require("r2.pairs", 1000)
	m.Require("rect.pairs", 1000)
	m.Require("cap.pairs", 1000)
	m.Stream("s1", m.N(400000, 30000000), s1Pair)
	m.Stream("r1", m.N(200000, 10000000), r1Pair)
	m.Stream("r2", m.N(100000, 5000000), r2Pair)
	m.Stream("rect", m.N(100000, 5000000), rectPair)
	m.Stream("cap", m.N(100000, 5000000), capPair)
	m.Stream("chordangle", m.N(200000, 10000000), chordAngle)
}

func ulps(x float64, k int) float64 {
	for ; k > 0; k-- {
		x = math.Nextafter(x, math.Inf(1))
	}
	for ; k < 0; k++ {
		x = math.Nextafter(x, math.Inf(-1))
	}
	return x
}

// laws checks the membership laws over a probe set. inU/inI may be nil.
type lawIn[P any] struct {
	name                         string
	probes                       []P
	inA, inB, inU, inI           func(P) bool
	haveContains, haveIntersects bool
	containsAB, intersectsAB     bool // A.Contains(B), A.Intersects(B) as answered by the library
	twoSidedOK                   bool // the float probes are complete witnesses for "not a subset" (false when the complement of A holds no float)
	show                         func(P) string
	desc                         func() any
}

func laws[P any](c *mon.Case, in lawIn[P]) {
	allBinA, someAB := true, false
	var wC, wI P
	for _, p := range in.probes {
		a, b := in.inA(p), in.inB(p)
		if in.inU != nil && (a || b) && !in.inU(p) {
			c.Violation(in.name+"/Union/loses-point/wrong-answer", "union does not contain a point of an operand: "+in.show(p), in.desc())
		}
		if in.inI != nil {
			i := in.inI(p)
			if a && b && !i {
				c.Violation(in.name+"/Intersection/loses-common-point/wrong-answer", "intersection does not contain a common point: "+in.show(p), in.desc())
			}
			if i && !a && !b {
				c.Violation(in.name+"/Intersection/invents-point/wrong-answer", "intersection contains a point of neither operand: "+in.show(p), in.desc())
			}
		}
		if b && !a && allBinA {
			allBinA, wC = false, p
		}
		if a && b && !someAB {
			someAB, wI = true, p
		}
	}
	if in.haveContains {
		if in.containsAB && !allBinA {
			c.Violation(in.name+"/Contains/true-but-point-outside/wrong-answer", "A.Contains(B) but a point of B is not in A: "+in.show(wC), in.desc())
		}
		if !in.containsAB && allBinA && in.twoSidedOK {
			c.Violation(in.name+"/Contains/false-but-subset/wrong-answer", "A.Contains(B) is false although every point of B (endpoints, neighbours, midpoints) is in A", in.desc())
		}
	}
	if in.haveIntersects {
		if !in.intersectsAB && someAB {
			c.Violation(in.name+"/Intersects/false-but-common-point/wrong-answer", "A.Intersects(B) is false but they share "+in.show(wI), in.desc())
		}
		if in.intersectsAB && !someAB {
			c.Violation(in.name+"/Intersects/true-but-disjoint/wrong-answer", "A.Intersects(B) but no endpoint/corner/neighbour lies in both", in.desc())
		}
	}
}

// ---------- s1.Interval ----------

var s1Specials = []float64{math.Pi, -math.Pi, math.Pi / 2, -math.Pi / 2, 0}

func s1Endpoint(r *rand.Rand) float64 {
	switch r.Intn(4) {
	case 0:
		return s1Specials[r.Intn(len(s1Specials))]
	case 1:
		x := ulps(s1Specials[r.Intn(len(s1Specials))], r.Intn(7)-3)
		if x > math.Pi {
			x = math.Pi
		}
		if x < -math.Pi {
			x = -math.Pi
		}
		return x
	default:
		return (r.Float64()*2 - 1) * math.Pi
	}
}

func s1Interval(r *rand.Rand) s1.Interval {
	switch r.Intn(10) {
	case 0:
		return s1.EmptyInterval()
	case 1:
		return s1.FullInterval()
	case 2:
		p := s1Endpoint(r)
		return s1.IntervalFromEndpoints(p, p)
	default:
		return s1.IntervalFromEndpoints(s1Endpoint(r), s1Endpoint(r))
	}
}

// s1In is the documented membership definition, evaluated by the monitor.
func s1In(i s1.Interval, p float64) bool {
	if p == -math.Pi {
		p = math.Pi
	}
	lo, hi := i.Lo, i.Hi
	if lo == math.Pi && hi == -math.Pi {
		return false // empty
	}
	if lo <= hi {
		return lo <= p && p <= hi
	}
	return p >= lo || p <= hi
}

func s1Probes(is ...s1.Interval) []float64 {
	var base []float64
	for _, i := range is {
		base = append(base, i.Lo, i.Hi)
	}
	base = append(base, math.Pi, -math.Pi, 0)
	set := map[float64]bool{}
	add := func(x float64) {
		if x >= -math.Pi && x <= math.Pi {
			set[x] = true
		}
	}
	for _, b := range base {
		add(b)
		add(ulps(b, 1))
		add(ulps(b, -1))
	}
	var s []float64
	for x := range set {
		s = append(s, x)
	}
	sort.Float64s(s)
	for i := 0; i+1 < len(s); i++ {
		add(0.5 * (s[i] + s[i+1]))
	}
	s = s[:0]
	for x := range set {
		s = append(s, x)
	}
	sort.Float64s(s)
	return s
}

func hx(x float64) string        { return fmt.Sprintf("%x", x) }
func s1Str(i s1.Interval) string { return "[" + hx(i.Lo) + "," + hx(i.Hi) + "]" }

func s1Special(i s1.Interval) bool {
	if i.IsEmpty() || i.IsFull() || i.IsInverted() || i.Lo == i.Hi {
		return true
	}
	for _, e := range []float64{i.Lo, i.Hi} {
		if math.Abs(math.Abs(e)-math.Pi) < 1e-14 || math.Abs(math.Abs(e)-math.Pi/2) < 1e-14 {
			return true
		}
	}
	return false
}

func s1Pair(c *mon.Case) {
	r := c.R
	A, B := s1Interval(r), s1Interval(r)
	if r.Intn(4) == 0 { // share an endpoint
		B = s1.IntervalFromEndpoints(A.Hi, s1Endpoint(r))
	}
	if !A.IsValid() || !B.IsValid() {
		c.Violation("s1/constructor/invalid", "IntervalFromEndpoints produced an invalid interval", map[string]any{"A": s1Str(A), "B": s1Str(B)})
		return
	}
	c.Count("s1.pairs", 1)
	if s1Special(A) || s1Special(B) || A.Hi == B.Lo || A.Lo == B.Hi || A.Lo == B.Lo || A.Hi == B.Hi {
		c.DistinctF(A.Lo, A.Hi, B.Lo, B.Hi)
	}
	U, I := A.Union(B), A.Intersection(B)
	comp := A.Complement()
	margin := 0.0
	switch r.Intn(6) {
	case 0, 1, 2:
		margin = gen.LogUniform(r, 1e-17, 7)
	case 3: // negative: the interval shrinks on both sides (possibly to nothing)
		margin = -gen.LogUniform(r, 1e-17, 7)
	case 4: // negative, between nothing and the whole length (the interval is used up at half its length)
		margin = -A.Length() * 1.2 * r.Float64()
	}
	E := A.Expanded(margin)
	pa, pb := s1Endpoint(r), s1Endpoint(r)
	PP := s1.IntervalFromPointPair(pa, pb)
	AP := A.AddPoint(pa)
	desc := func() any {
		return map[string]any{"A": s1Str(A), "B": s1Str(B), "union": s1Str(U), "intersection": s1Str(I), "complementA": s1Str(comp), "margin": hx(margin), "expandedA": s1Str(E), "pointpair": []string{hx(pa), hx(pb), s1Str(PP)}, "addpoint": s1Str(AP)}
	}
	if c.I < 3 {
		c.Sample(desc())
	}
	for name, x := range map[string]s1.Interval{"Union": U, "Intersection": I, "Complement": comp, "Expanded": E, "IntervalFromPointPair": PP, "AddPoint": AP} {
		if !x.IsValid() {
			c.Violation("s1/"+name+"/invalid-result", name+" returned an invalid interval "+s1Str(x), desc())
		}
	}
	probes := s1Probes(A, B, U, I, comp, E, PP, AP)
	// almost-full operands whose complement holds no float cannot be witnessed by float probes
	// "B is not a subset of A" needs a float witness: if A is not full but no float lies in its
	// complement (a 1-ulp gap), real points of B may be missing from A although every float probe is in it.
	two := A.IsFull()
	for _, p := range probes {
		if !s1In(A, p) {
			two = true
			break
		}
	}
	laws(c, lawIn[float64]{name: "s1", probes: probes,
		inA: func(p float64) bool { return s1In(A, p) }, inB: func(p float64) bool { return s1In(B, p) },
		inU: func(p float64) bool { return s1In(U, p) }, inI: func(p float64) bool { return s1In(I, p) },
		haveContains: true, haveIntersects: true, containsAB: A.ContainsInterval(B), intersectsAB: A.Intersects(B), twoSidedOK: two,
		show: hx, desc: desc})
	// interior forms: the interior of a non-full interval is the interval without its two endpoints (-pi == pi)
	sameAngle := func(p, q float64) bool { return p == q || (math.Abs(p) == math.Pi && math.Abs(q) == math.Pi) }
	openA := func(p float64) bool {
		return A.IsFull() || (s1In(A, p) && !sameAngle(p, A.Lo) && !sameAngle(p, A.Hi))
	}
	ici, ii := A.InteriorContainsInterval(B), A.InteriorIntersects(B)
	if ici && !A.ContainsInterval(B) {
		c.Violation("s1/InteriorContainsInterval/true-but-not-contained/wrong-answer", "InteriorContainsInterval is true but ContainsInterval is false", desc())
	}
	if ii && !A.Intersects(B) {
		c.Violation("s1/InteriorIntersects/true-but-not-Intersects/wrong-answer", "InteriorIntersects is true but Intersects is false", desc())
	}
	for _, p := range probes {
		if got, want := A.InteriorContains(p), openA(p); got != want {
			c.Violation("s1/InteriorContains-point/wrong-answer", fmt.Sprintf("InteriorContains(%s)=%v, the interval without its endpoints says %v", hx(p), got, want), desc())
		}
		if s1In(B, p) {
			if ici && !openA(p) {
				c.Violation("s1/InteriorContainsInterval/true-but-point-not-inside/wrong-answer", "InteriorContainsInterval is true but this point of B is not in the interior of A: "+hx(p), desc())
			}
			if !ii && openA(p) {
				c.Violation("s1/InteriorIntersects/false-but-common-point/wrong-answer", "InteriorIntersects is false but this point of B is in the interior of A: "+hx(p), desc())
			}
		}
	}
	for _, p := range probes {
		a := s1In(A, p)
		if got := A.Contains(p); got != a {
			c.Violation("s1/Contains-point/wrong-answer", fmt.Sprintf("Contains(%s)=%v, definition says %v", hx(p), got, a), desc())
		}
		if !a && !s1In(comp, p) {
			c.Violation("s1/Complement/does-not-cover/wrong-answer", "point in neither A nor Complement(A): "+hx(p), desc())
		}
		if margin >= 0 && a && !s1In(E, p) {
			c.Violation("s1/Expanded/loses-point/wrong-answer", "Expanded(margin>=0) lost "+hx(p), desc())
		}
		if margin < 0 && !a && s1In(E, p) {
			c.Violation("s1/Expanded/negative-margin-adds-point/wrong-answer", "Expanded(margin<0) contains "+hx(p)+", which is not in the interval", desc())
		}
		if a && !s1In(AP, p) {
			c.Violation("s1/AddPoint/loses-point/wrong-answer", "AddPoint lost "+hx(p), desc())
		}
		if !A.IsEmpty() {
			q := A.Project(p)
			if !s1In(A, q) {
				c.Violation("s1/Project/outside/wrong-answer", "Project("+hx(p)+")="+hx(q)+" is not in the interval", desc())
			}
			if a && q != p && !(p == -math.Pi && q == math.Pi) {
				c.Violation("s1/Project/moves-contained-point/wrong-answer", "Project moved a contained point "+hx(p)+" to "+hx(q), desc())
			}
		}
	}
	if !s1In(PP, pa) || !s1In(PP, pb) {
		c.Violation("s1/IntervalFromPointPair/loses-point/wrong-answer", "IntervalFromPointPair does not contain its own arguments", desc())
	}
	if !s1In(AP, pa) {
		c.Violation("s1/AddPoint/loses-new-point/wrong-answer", "AddPoint does not contain the added point", desc())
	}
	// interior forms are implied one way
	if A.InteriorContainsInterval(B) && !A.ContainsInterval(B) {
		c.Violation("s1/InteriorContains-implies-Contains/wrong-answer", "InteriorContainsInterval but not ContainsInterval", desc())
	}
	if A.InteriorIntersects(B) && !A.Intersects(B) {
		c.Violation("s1/InteriorIntersects-implies-Intersects/wrong-answer", "InteriorIntersects but not Intersects", desc())
	}
	if A.Intersects(B) != B.Intersects(A) {
		c.Violation("s1/Intersects/asymmetric/wrong-answer", "Intersects is not symmetric", desc())
	}
}

// ---------- r1.Interval ----------

func r1Endpoint(r *rand.Rand) float64 {
	sp := []float64{0, 1, -1, math.Pi / 2, -math.Pi / 2, 0.5}
	switch r.Intn(3) {
	case 0:
		return sp[r.Intn(len(sp))]
	case 1:
		return ulps(sp[r.Intn(len(sp))], r.Intn(7)-3)
	default:
		return r.Float64()*4 - 2
	}
}

func r1Interval(r *rand.Rand) r1.Interval {
	switch r.Intn(8) {
	case 0:
		return r1.EmptyInterval()
	case 1:
		p := r1Endpoint(r)
		return r1.Interval{Lo: p, Hi: p}
	case 2:
		return r1.Interval{Lo: r1Endpoint(r), Hi: r1Endpoint(r)} // possibly empty (lo>hi)
	default:
		a, b := r1Endpoint(r), r1Endpoint(r)
		if a > b {
			a, b = b, a
		}
		return r1.Interval{Lo: a, Hi: b}
	}
}

func r1In(i r1.Interval, p float64) bool { return i.Lo <= p && p <= i.Hi }
func r1Str(i r1.Interval) string         { return "[" + hx(i.Lo) + "," + hx(i.Hi) + "]" }

func linProbes(vals ...float64) []float64 {
	set := map[float64]bool{}
	for _, b := range vals {
		if math.IsNaN(b) || math.IsInf(b, 0) {
			continue
		}
		set[b], set[ulps(b, 1)], set[ulps(b, -1)] = true, true, true
	}
	var s []float64
	for x := range set {
		s = append(s, x)
	}
	sort.Float64s(s)
	n := len(s)
	for i := 0; i+1 < n; i++ {
		s = append(s, 0.5*(s[i]+s[i+1]))
	}
	return s
}

func r1Pair(c *mon.Case) {
	r := c.R
	A, B := r1Interval(r), r1Interval(r)
	if r.Intn(4) == 0 {
		B = r1.Interval{Lo: A.Hi, Hi: math.Max(A.Hi, r1Endpoint(r))}
	}
	c.Count("r1.pairs", 1)
	if A.IsEmpty() || B.IsEmpty() || A.Lo == A.Hi || B.Lo == B.Hi || A.Hi == B.Lo || A.Lo == B.Hi {
		c.DistinctF(A.Lo, A.Hi, B.Lo, B.Hi)
	}
	U, I := A.Union(B), A.Intersection(B)
	margin := 0.0
	switch r.Intn(6) {
	case 0, 1, 2:
		margin = gen.LogUniform(r, 1e-17, 3)
	case 3:
		margin = -gen.LogUniform(r, 1e-17, 3)
	case 4:
		margin = -A.Length() * 1.2 * r.Float64()
	}
	E := A.Expanded(margin)
	pa := r1Endpoint(r)
	AP := A.AddPoint(pa)
	desc := func() any {
		return map[string]any{"A": r1Str(A), "B": r1Str(B), "union": r1Str(U), "intersection": r1Str(I), "margin": hx(margin), "expandedA": r1Str(E), "addpoint": []string{hx(pa), r1Str(AP)}}
	}
	if c.I < 3 {
		c.Sample(desc())
	}
	probes := linProbes(A.Lo, A.Hi, B.Lo, B.Hi, U.Lo, U.Hi, I.Lo, I.Hi, E.Lo, E.Hi, pa)
	laws(c, lawIn[float64]{name: "r1", probes: probes,
		inA: func(p float64) bool { return r1In(A, p) }, inB: func(p float64) bool { return r1In(B, p) },
		inU: func(p float64) bool { return r1In(U, p) }, inI: func(p float64) bool { return r1In(I, p) },
		haveContains: true, haveIntersects: true, containsAB: A.ContainsInterval(B), intersectsAB: A.Intersects(B), twoSidedOK: true,
		show: hx, desc: desc})
	for _, p := range probes {
		a := r1In(A, p)
		if A.Contains(p) != a {
			c.Violation("r1/Contains-point/wrong-answer", "Contains("+hx(p)+") disagrees with lo<=p<=hi", desc())
		}
		if margin >= 0 && a && !r1In(E, p) {
			c.Violation("r1/Expanded/loses-point/wrong-answer", "Expanded(margin>=0) lost "+hx(p), desc())
		}
		if margin < 0 && !a && r1In(E, p) {
			c.Violation("r1/Expanded/negative-margin-adds-point/wrong-answer", "Expanded(margin<0) contains "+hx(p)+", which is not in the interval", desc())
		}
		if a && !r1In(AP, p) {
			c.Violation("r1/AddPoint/loses-point/wrong-answer", "AddPoint lost "+hx(p), desc())
		}
		if !A.IsEmpty() {
			q := A.ClampPoint(p)
			if !r1In(A, q) || (a && q != p) {
				c.Violation("r1/ClampPoint/wrong-answer", "ClampPoint("+hx(p)+")="+hx(q), desc())
			}
		}
	}
	if !r1In(AP, pa) {
		c.Violation("r1/AddPoint/loses-new-point/wrong-answer", "AddPoint does not contain the added point", desc())
	}
	// the empty case: no point is within any margin of the empty set (documented: "any expansion of an empty
	// interval remains empty"), also for the non-canonical empty intervals that Intersection produces
	for _, x := range []r1.Interval{A, I, r1.EmptyInterval()} {
		if x.IsEmpty() {
			c.Count("r1.empty_expanded", 1)
			for _, mg := range []float64{margin, 0.5, 1, 3, gen.LogUniform(r, 1e-3, 10)} {
				if e := x.Expanded(mg); !e.IsEmpty() {
					c.Violation("r1/Expanded/empty-becomes-non-empty/wrong-answer", fmt.Sprintf("Expanded(%s) of the empty interval %s is %s", hx(mg), r1Str(x), r1Str(e)), desc())
					break
				}
			}
		}
	}
	if A.InteriorContainsInterval(B) && !A.ContainsInterval(B) {
		c.Violation("r1/InteriorContains-implies-Contains/wrong-answer", "InteriorContainsInterval but not ContainsInterval", desc())
	}
	if A.InteriorIntersects(B) && !A.Intersects(B) {
		c.Violation("r1/InteriorIntersects-implies-Intersects/wrong-answer", "InteriorIntersects but not Intersects", desc())
	}
	// interior forms against open membership lo < p < hi, by witnesses among the probes (the probes hold every
	// endpoint, its ulp neighbours and the midpoints between them, so a witness exists whenever one is needed)
	open := func(x r1.Interval, p float64) bool { return x.Lo < p && p < x.Hi }
	allIn, common := true, false
	for _, p := range probes {
		if A.InteriorContains(p) != open(A, p) {
			c.Violation("r1/InteriorContains-point/wrong-answer", "InteriorContains("+hx(p)+") disagrees with lo<p<hi", desc())
		}
		if r1In(B, p) && !open(A, p) {
			allIn = false
		}
		if r1In(B, p) && open(A, p) {
			common = true
		}
	}
	if got := A.InteriorContainsInterval(B); got != allIn {
		c.Violation("r1/InteriorContainsInterval/wrong-answer", fmt.Sprintf("InteriorContainsInterval=%v but the probes of B strictly inside A say %v", got, allIn), desc())
	}
	// (an interval between two adjacent floats has an interior without representable points: no witness)
	thin := !A.IsEmpty() && math.Nextafter(math.Nextafter(A.Lo, math.Inf(1)), math.Inf(1)) >= A.Hi
	if got := A.InteriorIntersects(B); got != common && !(got && thin) {
		c.Violation("r1/InteriorIntersects/wrong-answer", fmt.Sprintf("InteriorIntersects=%v but a point of B strictly inside A exists: %v", got, common), desc())
	}
}

// ---------- r2.Rect ----------

func r2In(x r2.Rect, p r2.Point) bool { return r1In(x.X, p.X) && r1In(x.Y, p.Y) }
func r2Str(x r2.Rect) string          { return "X" + r1Str(x.X) + " Y" + r1Str(x.Y) }
func r2Rect(r *rand.Rand) r2.Rect {
	if r.Intn(8) == 0 {
		return r2.EmptyRect()
	}
	a, b := r1Interval(r), r1Interval(r)
	if a.IsEmpty() || b.IsEmpty() {
		return r2.EmptyRect() // a valid rect is empty in both axes or in neither
	}
	return r2.Rect{X: a, Y: b}
}

func r2Pair(c *mon.Case) {
	r := c.R
	A, B := r2Rect(r), r2Rect(r)
	c.Count("r2.pairs", 1)
	if A.IsEmpty() || B.IsEmpty() || A.X.Hi == B.X.Lo || A.Y.Hi == B.Y.Lo || A.X.Lo == A.X.Hi || B.Y.Lo == B.Y.Hi {
		c.DistinctF(A.X.Lo, A.X.Hi, A.Y.Lo, A.Y.Hi, B.X.Lo, B.X.Hi, B.Y.Lo, B.Y.Hi)
	}
	U, I := A.Union(B), A.Intersection(B)
	AR := A.AddRect(B)
	m := r2.Point{X: 0, Y: 0}
	switch r.Intn(5) {
	case 0, 1:
		m = r2.Point{X: gen.LogUniform(r, 1e-17, 2), Y: gen.LogUniform(r, 1e-17, 2)}
	case 2: // both margins negative: the rectangle shrinks (possibly to nothing)
		m = r2.Point{X: -A.X.Length() * 1.2 * r.Float64(), Y: -A.Y.Length() * 1.2 * r.Float64()}
		if r.Intn(2) == 0 {
			m = r2.Point{X: -gen.LogUniform(r, 1e-17, 2), Y: -gen.LogUniform(r, 1e-17, 2)}
		}
	}
	E := A.Expanded(m)
	pt := r2.Point{X: r1Endpoint(r), Y: r1Endpoint(r)}
	AP := A.AddPoint(pt)
	desc := func() any {
		return map[string]any{"A": r2Str(A), "B": r2Str(B), "union": r2Str(U), "intersection": r2Str(I), "expandedA": r2Str(E), "margin": []string{hx(m.X), hx(m.Y)}, "addpoint": r2Str(AP)}
	}
	if c.I < 3 {
		c.Sample(desc())
	}
	for name, x := range map[string]r2.Rect{"Union": U, "Intersection": I, "Expanded": E, "AddPoint": AP, "AddRect": AR} {
		if !x.IsValid() {
			c.Violation("r2/"+name+"/invalid-result", name+" returned an invalid rect "+r2Str(x), desc())
		}
	}
	xs := linProbes(A.X.Lo, A.X.Hi, B.X.Lo, B.X.Hi, U.X.Lo, U.X.Hi, I.X.Lo, I.X.Hi, pt.X)
	ys := linProbes(A.Y.Lo, A.Y.Hi, B.Y.Lo, B.Y.Hi, U.Y.Lo, U.Y.Hi, I.Y.Lo, I.Y.Hi, pt.Y)
	var probes []r2.Point
	for _, x := range xs {
		for _, y := range ys {
			probes = append(probes, r2.Point{X: x, Y: y})
		}
	}
	show := func(p r2.Point) string { return "(" + hx(p.X) + "," + hx(p.Y) + ")" }
	laws(c, lawIn[r2.Point]{name: "r2", probes: probes,
		inA: func(p r2.Point) bool { return r2In(A, p) }, inB: func(p r2.Point) bool { return r2In(B, p) },
		inU: func(p r2.Point) bool { return r2In(U, p) }, inI: func(p r2.Point) bool { return r2In(I, p) },
		haveContains: true, haveIntersects: true, containsAB: A.Contains(B), intersectsAB: A.Intersects(B), twoSidedOK: true,
		show: show, desc: desc})
	for _, p := range probes {
		a := r2In(A, p)
		if A.ContainsPoint(p) != a {
			c.Violation("r2/ContainsPoint/wrong-answer", "ContainsPoint"+show(p)+" disagrees with the definition", desc())
		}
		if m.X >= 0 && m.Y >= 0 && a && !r2In(E, p) {
			c.Violation("r2/Expanded/loses-point/wrong-answer", "Expanded(margin>=0) lost "+show(p), desc())
		}
		if m.X < 0 && m.Y < 0 && !a && r2In(E, p) {
			c.Violation("r2/Expanded/negative-margin-adds-point/wrong-answer", "Expanded(margin<0) contains "+show(p)+", which is not in the rectangle", desc())
		}
		if (a || r2In(B, p)) && !r2In(AR, p) {
			c.Violation("r2/AddRect/loses-point/wrong-answer", "AddRect lost "+show(p), desc())
		}
		if a && !r2In(AP, p) {
			c.Violation("r2/AddPoint/loses-point/wrong-answer", "AddPoint lost "+show(p), desc())
		}
		if !A.IsEmpty() {
			q := A.ClampPoint(p)
			if !r2In(A, q) || (a && q != p) {
				c.Violation("r2/ClampPoint/wrong-answer", "ClampPoint"+show(p)+"="+show(q), desc())
			}
		}
	}
	if !r2In(AP, pt) {
		c.Violation("r2/AddPoint/loses-new-point/wrong-answer", "AddPoint does not contain the added point", desc())
	}
}

// ---------- s2.Rect (lat-lng) ----------

func latEndpoint(r *rand.Rand) float64 {
	sp := []float64{math.Pi / 2, -math.Pi / 2, 0, math.Pi / 4}
	switch r.Intn(3) {
	case 0:
		return sp[r.Intn(len(sp))]
	case 1:
		x := ulps(sp[r.Intn(len(sp))], r.Intn(7)-3)
		return math.Max(-math.Pi/2, math.Min(math.Pi/2, x))
	default:
		return (r.Float64() - 0.5) * math.Pi
	}
}

func llRect(r *rand.Rand) s2.Rect {
	switch r.Intn(10) {
	case 0:
		return s2.EmptyRect()
	case 1:
		return s2.FullRect()
	}
	a, b := latEndpoint(r), latEndpoint(r)
	if a > b {
		a, b = b, a
	}
	lng := s1Interval(r)
	if lng.IsEmpty() {
		return s2.EmptyRect()
	}
	return s2.Rect{Lat: r1.Interval{Lo: a, Hi: b}, Lng: lng}
}

type ll struct{ lat, lng float64 }

func llIn(x s2.Rect, p ll) bool { return r1In(x.Lat, p.lat) && s1In(x.Lng, p.lng) }
func llStr(x s2.Rect) string    { return "Lat" + r1Str(x.Lat) + " Lng" + s1Str(x.Lng) }

func rectPair(c *mon.Case) {
	r := c.R
	A, B := llRect(r), llRect(r)
	if !A.IsValid() || !B.IsValid() {
		return
	}
	c.Count("rect.pairs", 1)
	if A.IsEmpty() || B.IsEmpty() || A.IsFull() || B.IsFull() || s1Special(A.Lng) || s1Special(B.Lng) || math.Abs(A.Lat.Hi) == math.Pi/2 || math.Abs(B.Lat.Lo) == math.Pi/2 {
		c.DistinctF(A.Lat.Lo, A.Lat.Hi, A.Lng.Lo, A.Lng.Hi, B.Lat.Lo, B.Lat.Hi, B.Lng.Lo, B.Lng.Hi)
	}
	U, I := A.Union(B), A.Intersection(B)
	pt := s2.LatLng{Lat: s1.Angle(latEndpoint(r)), Lng: s1.Angle(s1Endpoint(r))}
	AP := A.AddPoint(pt)
	PC := A.PolarClosure()
	desc := func() any {
		return map[string]any{"A": llStr(A), "B": llStr(B), "union": llStr(U), "intersection": llStr(I), "addpoint": []string{hx(float64(pt.Lat)), hx(float64(pt.Lng)), llStr(AP)}, "polarclosure": llStr(PC)}
	}
	if c.I < 3 {
		c.Sample(desc())
	}
	for name, x := range map[string]s2.Rect{"Union": U, "Intersection": I, "AddPoint": AP, "PolarClosure": PC} {
		if !x.IsValid() {
			c.Violation("rect/"+name+"/invalid-result", name+" returned an invalid rect "+llStr(x), desc())
		}
	}
	// the constructors from a single point and from a centre and size: valid results that contain the point
	if fl := s2.RectFromLatLng(pt); !fl.IsValid() {
		c.Violation("rect/RectFromLatLng/invalid-result", "RectFromLatLng of a valid LatLng returned an invalid rect "+llStr(fl), desc())
	} else if !fl.ContainsLatLng(pt) {
		c.Violation("rect/RectFromLatLng/loses-point/wrong-answer", "RectFromLatLng does not contain its point", desc())
	}
	if cs := s2.RectFromCenterSize(pt, s2.LatLng{Lat: s1.Angle(r.Float64() * 4), Lng: s1.Angle(r.Float64() * 7)}); !cs.IsValid() {
		c.Violation("rect/RectFromCenterSize/invalid-result", "RectFromCenterSize returned an invalid rect "+llStr(cs), desc())
	} else if !cs.ContainsLatLng(pt) {
		c.Violation("rect/RectFromCenterSize/loses-center/wrong-answer", "RectFromCenterSize does not contain its centre", desc())
	}
	lats := linProbes(A.Lat.Lo, A.Lat.Hi, B.Lat.Lo, B.Lat.Hi, U.Lat.Lo, U.Lat.Hi, I.Lat.Lo, I.Lat.Hi, float64(pt.Lat))
	lngs := s1Probes(A.Lng, B.Lng, U.Lng, I.Lng)
	var probes []ll
	for _, la := range lats {
		if la < -math.Pi/2 || la > math.Pi/2 {
			continue
		}
		for _, ln := range lngs {
			probes = append(probes, ll{la, ln})
		}
	}
	two := A.Lng.IsFull()
	for _, p := range lngs {
		if !s1In(A.Lng, p) {
			two = true
			break
		}
	}
	show := func(p ll) string { return "(lat " + hx(p.lat) + ", lng " + hx(p.lng) + ")" }
	laws(c, lawIn[ll]{name: "rect", probes: probes,
		inA: func(p ll) bool { return llIn(A, p) }, inB: func(p ll) bool { return llIn(B, p) },
		inU: func(p ll) bool { return llIn(U, p) }, inI: func(p ll) bool { return llIn(I, p) },
		haveContains: true, haveIntersects: true, containsAB: A.Contains(B), intersectsAB: A.Intersects(B), twoSidedOK: two,
		show: show, desc: desc})
	for _, p := range probes {
		a := llIn(A, p)
		if got := A.ContainsLatLng(s2.LatLng{Lat: s1.Angle(p.lat), Lng: s1.Angle(p.lng)}); got != a {
			c.Violation("rect/ContainsLatLng/wrong-answer", fmt.Sprintf("ContainsLatLng%s=%v, definition says %v", show(p), got, a), desc())
		}
		if a && !llIn(AP, p) {
			c.Violation("rect/AddPoint/loses-point/wrong-answer", "AddPoint lost "+show(p), desc())
		}
		if a && !llIn(PC, p) {
			c.Violation("rect/PolarClosure/loses-point/wrong-answer", "PolarClosure lost "+show(p), desc())
		}
	}
	if !llIn(AP, ll{float64(pt.Lat), float64(pt.Lng)}) {
		c.Violation("rect/AddPoint/loses-new-point/wrong-answer", "AddPoint does not contain the added point", desc())
	}
}

// ---------- caps ----------

func capIn(x s2.Cap, p s2.Point) bool { return x.ContainsPoint(p) }
func capStr(x s2.Cap) string {
	return fmt.Sprintf("center %s chord2 %x", gen.Hex(x.Center()), chord2(x))
}

// chord2 recovers the cap's squared chord radius (height = radius/2).
func chord2(x s2.Cap) float64 { return 2 * x.Height() }

// outsideBy returns how far (in squared chord length) p lies outside the cap, in high precision.
func outsideBy(x s2.Cap, p s2.Point) float64 {
	d := ref.Fl(ref.Chord2(ref.HV(gen.V(x.Center())), ref.HV(gen.V(p))))
	return d - chord2(x)
}

func randCap(r *rand.Rand) s2.Cap {
	ctr := gen.Uniform(r)
	if r.Intn(4) == 0 {
		ctr = gen.Special(r)
	}
	switch r.Intn(10) {
	case 0:
		return s2.EmptyCap()
	case 1:
		return s2.FullCap()
	case 2:
		return s2.CapFromPoint(ctr)
	case 3:
		return s2.CapFromCenterAngle(ctr, s1.Angle(ulps([]float64{math.Pi, math.Pi / 2, math.Pi / 3}[r.Intn(3)], r.Intn(5)-2)))
	case 4:
		return s2.CapFromCenterAngle(ctr, s1.Angle(gen.LogUniform(r, 1e-15, 1e-3)))
	default:
		return s2.CapFromCenterAngle(ctr, s1.Angle(r.Float64()*math.Pi))
	}
}

func capProbes(r *rand.Rand, caps ...s2.Cap) []s2.Point {
	var ps []s2.Point
	for _, x := range caps {
		if x.IsEmpty() {
			continue
		}
		ps = append(ps, x.Center(), s2.Point{Vector: x.Center().Mul(-1)})
		rad := x.Radius().Radians()
		for k := 0; k < 6; k++ {
			d := rad
			switch k % 3 {
			case 1:
				d = rad * (1 - 1e-15)
			case 2:
				d = rad * (1 + 1e-15)
			}
			if d > math.Pi {
				d = math.Pi
			}
			p := gen.Near(r, x.Center(), d)
			ps = append(ps, p, gen.NudgeUlps(r, p, 2))
		}
	}
	for k := 0; k < 4; k++ {
		ps = append(ps, gen.Uniform(r))
	}
	return ps
}

const capSlack = 1e-14

func capPair(c *mon.Case) {
	r := c.R
	A, B := randCap(r), randCap(r)
	if r.Intn(3) == 0 && !A.IsEmpty() { // tangent / nested / nearly complementary configurations
		ra := A.Radius().Radians()
		rb := r.Float64() * math.Pi
		d := []float64{ra + rb, math.Abs(ra - rb), math.Pi - ra}[r.Intn(3)]
		d = math.Min(math.Pi, math.Max(0, d+[]float64{0, 1e-15, -1e-15}[r.Intn(3)]))
		B = s2.CapFromCenterAngle(gen.Near(r, A.Center(), d), s1.Angle(rb))
	}
	c.Count("cap.pairs", 1)
	if A.IsEmpty() || B.IsEmpty() || A.IsFull() || B.IsFull() || chord2(A) == 0 || chord2(B) == 0 || chord2(A) > 3.9 || chord2(B) > 3.9 {
		c.Distinct(append(gen.Bits(A.Center(), B.Center()), math.Float64bits(chord2(A)), math.Float64bits(chord2(B)))...)
	}
	U := A.Union(B)
	AC := A.AddCap(B)
	comp := A.Complement()
	// expansion distances that bring the radius to just below / at / above 180 degrees
	dist := r.Float64() * math.Pi
	switch r.Intn(4) {
	case 0:
		dist = math.Max(0, math.Pi-A.Radius().Radians()+float64(r.Intn(9)-4)*1e-16)
	case 1:
		dist = ulps(math.Max(0, math.Pi-A.Radius().Radians()), r.Intn(9)-4)
		if dist < 0 {
			dist = 0
		}
	case 2:
		dist = gen.LogUniform(r, 1e-17, 1)
	}
	E := A.Expanded(s1.Angle(dist))
	np := gen.Uniform(r)
	AP := A.AddPoint(np)
	desc := func() any {
		return map[string]any{"A": capStr(A), "B": capStr(B), "union": capStr(U), "addcap": capStr(AC), "complementA": capStr(comp), "expand_by": hx(dist), "expandedA": capStr(E), "addpoint": gen.Hex(np)}
	}
	if c.I < 3 {
		c.Sample(desc())
	}
	for name, x := range map[string]s2.Cap{"Union": U, "AddCap": AC, "Complement": comp, "Expanded": E, "AddPoint": AP} {
		if !x.IsValid() {
			c.Violation("cap/"+name+"/invalid-result", name+" returned an invalid cap ("+capStr(x)+")", desc())
		}
	}
	probes := capProbes(r, A, B, U, comp, E)
	probes = append(probes, np)
	contains, intersects := A.Contains(B), A.Intersects(B)
	for _, p := range probes {
		a, b := capIn(A, p), capIn(B, p)
		out := func(x s2.Cap) bool { return !capIn(x, p) && outsideBy(x, p) > capSlack }
		// a point of an operand that the result misses: measured in 320-bit arithmetic; misses of at most
		// capSlack (1e-14 in squared chord length, the rounding of the construction itself) are classed
		// "representation-level", anything larger by its size
		lose := func(name string, x s2.Cap, what string) {
			if capIn(x, p) {
				return
			}
			ob := outsideBy(x, p)
			if ob <= 0 {
				return // inside in exact arithmetic: only the membership test rounded
			}
			class := mon.Severity(ob)
			if ob <= capSlack {
				class = "representation-level"
			}
			c.Max("cap."+name+".max_miss_chord2."+class, ob)
			c.Violation("cap/"+name+"/loses-point/"+class, fmt.Sprintf("%s: %s (outside by %.3g in squared chord length)", what, gen.Hex(p), ob), desc())
		}
		if a || b {
			lose("Union", U, "Union does not contain a point of an operand")
			if !A.IsEmpty() {
				lose("AddCap", AC, "AddCap does not contain a point of an operand")
			}
		}
		if a && !E.IsEmpty() {
			lose("Expanded", E, "Expanded(d>=0) lost a point")
		}
		if a && E.IsEmpty() {
			c.Violation("cap/Expanded/loses-point/gross", "Expanded(d>=0) of a non-empty cap is empty", desc())
		}
		if a {
			lose("AddPoint", AP, "AddPoint lost a point")
		}
		if !a && !capIn(comp, p) && (comp.IsEmpty() || outsideBy(comp, p) > capSlack) && outsideBy(A, p) > capSlack {
			c.Violation("cap/Complement/does-not-cover/wrong-answer", "point in neither A nor Complement(A): "+gen.Hex(p), desc())
		}
		if contains && b && out(A) {
			c.Violation("cap/Contains/true-but-point-outside/"+mon.Severity(outsideBy(A, p)), "A.Contains(B) but a point of B is outside A: "+gen.Hex(p), desc())
		}
		// float estimate first; the 320-bit measurement only where the answer could depend on it
		oa := float64(s2.ChordAngleBetweenPoints(A.Center(), p)) - chord2(A)
		if math.Abs(oa) < 1e-12 {
			oa = outsideBy(A, p)
		}
		if !A.IsEmpty() {
			if ip := A.InteriorContainsPoint(p); ip && !a {
				c.Violation("cap/InteriorContainsPoint/true-but-not-contained/wrong-answer", "InteriorContainsPoint is true but ContainsPoint is false for "+gen.Hex(p), desc())
			} else if ip && oa > capSlack {
				c.Violation("cap/InteriorContainsPoint/true-for-outside-point/"+mon.Severity(oa), "InteriorContainsPoint is true for a point outside the cap: "+gen.Hex(p), desc())
			} else if !ip && oa < -capSlack {
				c.Violation("cap/InteriorContainsPoint/false-for-inside-point/"+mon.Severity(-oa), "InteriorContainsPoint is false for a point strictly inside the cap: "+gen.Hex(p), desc())
			}
			if !A.InteriorIntersects(B) && oa < -capSlack && b && outsideBy(B, p) < -capSlack {
				c.Violation("cap/InteriorIntersects/false-but-common-interior-point/wrong-answer", "InteriorIntersects is false but a point lies strictly inside both caps: "+gen.Hex(p), desc())
			}
		}
		if A.InteriorIntersects(B) && !intersects {
			c.Violation("cap/InteriorIntersects/true-but-not-Intersects/wrong-answer", "InteriorIntersects is true but Intersects is false", desc())
		}
		if !intersects && a && b && outsideBy(A, p) < -capSlack && outsideBy(B, p) < -capSlack {
			c.Violation("cap/Intersects/false-but-common-point/wrong-answer", "A.Intersects(B) is false but both contain (with margin) "+gen.Hex(p), desc())
		}
	}
	if !capIn(AP, np) && outsideBy(AP, np) > capSlack {
		c.Violation("cap/AddPoint/loses-new-point/wrong-answer", "AddPoint does not contain the added point", desc())
	}
	if A.Intersects(B) != B.Intersects(A) {
		c.Violation("cap/Intersects/asymmetric/wrong-answer", "Intersects is not symmetric", desc())
	}
	// the empty cases: the empty cap has no point, so every cap contains it and none intersects it; expansion keeps it empty
	for _, e := range []s2.Cap{s2.EmptyCap(), s2.CapFromCenterHeight(B.Center(), -1)} {
		c.Count("cap.empty_cases", 1)
		if !A.Contains(e) {
			c.Violation("cap/Contains/empty-cap-not-contained/wrong-answer", "A.Contains(empty cap) is false ("+capStr(e)+")", desc())
		}
		if A.Intersects(e) || e.Intersects(A) || A.InteriorIntersects(e) {
			c.Violation("cap/Intersects/empty-cap-intersects/wrong-answer", "a cap intersects the empty cap ("+capStr(e)+")", desc())
		}
		if x := e.Expanded(s1.Angle(dist)); !x.IsEmpty() {
			c.Violation("cap/Expanded/empty-becomes-non-empty/wrong-answer", "Expanded of the empty cap is "+capStr(x), desc())
		}
		if !e.IsEmpty() || !e.IsValid() {
			c.Violation("cap/constructor/negative-height-not-empty/wrong-answer", "a cap of negative height is not a valid empty cap", desc())
		}
	}
	if E.IsValid() && A.IsFull() && !E.IsFull() {
		c.Violation("cap/Expanded/full-not-full/wrong-answer", "expanding the full cap is not full", desc())
	}
}

// chordAngle: arithmetic used by the cap algebra keeps values valid.
func chordAngle(c *mon.Case) {
	r := c.R
	pick := func() s1.ChordAngle {
		switch r.Intn(5) {
		case 0:
			return s1.ChordAngle(ulps([]float64{0, 1, 2, 3, 4}[r.Intn(5)], -r.Intn(3)))
		case 1:
			return s1.ChordAngleFromAngle(s1.Angle(ulps(math.Pi*[]float64{0.5, 1, 1.0 / 3, 2.0 / 3, 5.0 / 6}[r.Intn(5)], r.Intn(7)-3)))
		default:
			return s1.ChordAngle(r.Float64() * 4)
		}
	}
	a, b := pick(), pick()
	if r.Intn(3) == 0 { // sums just below 180 degrees
		ang := r.Float64() * math.Pi
		a = s1.ChordAngleFromAngle(s1.Angle(ang))
		b = s1.ChordAngleFromAngle(s1.Angle(ulps(math.Pi-ang, r.Intn(9)-6)))
	}
	if a < 0 || b < 0 || a > 4 || b > 4 {
		return
	}
	sum := a.Add(b)
	diff := a.Sub(b)
	det := map[string]any{"a": hx(float64(a)), "b": hx(float64(b)), "sum": hx(float64(sum)), "diff": hx(float64(diff))}
	c.Count("chordangle.ops", 1)
	if float64(a)+float64(b) > 3.99 {
		c.DistinctF(float64(a), float64(b))
	}
	if !(sum >= 0 && sum <= 4) {
		c.Violation("chordangle/Add/invalid-result", "ChordAngle.Add returned a value outside [0,4]: "+hx(float64(sum)), det)
	}
	if sum < a || sum < b {
		c.Violation("chordangle/Add/smaller-than-operand/wrong-answer", "a+b is smaller than an operand", det)
	}
	if !(diff >= 0 && diff <= 4) {
		c.Violation("chordangle/Sub/invalid-result", "ChordAngle.Sub returned a value outside [0,4]", det)
	}
	if c.I < 2 {
		c.Sample(det)
	}
}
