// Package c02 monitors C02: orientation and distance predicates return the
// sign of the exact quantity (see DESIGN.md section 5, C02).
package c02

import (
	"fmt"
	"math"
	"math/big"
	"math/rand"

	"github.com/golang/geo/r3"
	"github.com/golang/geo/s1"
	"github.com/golang/geo/s2"

	"verif/internal/gen"
	"verif/internal/mon"
	"verif/internal/ref"
)

func Run(m *mon.M) {
	m.Rule = "triples/5-tuples/distance triples drawn from degenerate pools (one exact plane, duplicates, antipodes, ulp neighbours, 1e-300 separations) and near-great-circle constructions; a case is non-trivial and distinct when its coordinate bit pattern is new AND the float triage stage abstained (so a later stage or exact/symbolic arithmetic decided)"
	m.Assumptions = []string{"internal/ref exact big.Int arithmetic and its Leibniz-expansion symbolic perturbation (cross-checked every run by Grassmann-Pluecker relations and antisymmetry laws)", "Go math/big"}
	m.Require("sign.decided.symbolic", 1000)
	m.Require("sign.decided.stable", 1000)
	m.Require("sign.decided.exact", 100)
	m.Require("cmpdists.decided.symbolic", 100)
	m.Require("cmpdists.decided.exact", 100)
	m.Require("cmpdist.decided.exact", 100)

	m.Stream("sign.pool", m.N(25000, 1500000), poolTriples)
	m.Stream("sign.near", m.N(300000, 20000000), nearTriple)
	m.Stream("sign.denormal", m.N(60000, 3000000), denormalTriple)
	m.Stream("sign.gp5", m.N(30000, 2000000), gp5)
	m.Stream("sign.errsearch", m.N(8000, 400000), errSearch)
	m.Stream("cmpdists", m.N(300000, 20000000), cmpDists)
	m.Stream("cmpdists.ulp", m.N(1500000, 60000000), cmpDistsUlp)
	m.Stream("cmpdist", m.N(300000, 20000000), cmpDist)
	m.Stream("signdot", m.N(300000, 20000000), signDot)
}

func dirStr(d int) string { return fmt.Sprintf("%+d", d) }

// checkTriple runs every orientation oracle on one ordered triple.
func checkTriple(c *mon.Case, a, b, c3 s2.Point) {
	va, vb, vc := gen.V(a), gen.V(b), gen.V(c3)
	exact := ref.DetSign(va, vb, vc)
	want := exact
	identical := a == b || b == c3 || a == c3
	if exact == 0 {
		want = ref.SoSSign(va, vb, vc)
	}
	// oracle self-checks (broken check, not a finding)
	if f := ref.Orient(va, vb, vc); f != want {
		c.M.Broken(fmt.Sprintf("ref float filter disagrees with exact: %v", gen.HexAll(a, b, c3)))
	}
	if !identical && want == 0 {
		c.M.Broken("reference SoS returned 0 for distinct points")
	}
	if ref.SoSSign(vb, va, vc) != -ref.SoSSign(va, vb, vc) {
		c.M.Broken("reference SoS not antisymmetric")
	}
	c.Count("sign.triples", 1)

	det := func(tag string) any {
		return map[string]any{"a": gen.Hex(a), "b": gen.Hex(b), "c": gen.Hex(c3), "exact_det_sign": exact, "reference": want, "where": tag}
	}
	got := int(s2.RobustSign(a, b, c3))
	if got != want {
		kind := "nonzero-det"
		if exact == 0 {
			kind = "symbolic"
		}
		if identical || got == 0 {
			kind = "zero-iff-identical"
		}
		c.Violation("RobustSign/"+kind+"/wrong-answer", fmt.Sprintf("RobustSign=%s reference=%s (exact det sign %s)", dirStr(got), dirStr(want), dirStr(exact)), det("RobustSign"))
	}
	if r := int(s2.RobustSign(b, c3, a)); r != got {
		c.Violation("RobustSign/rotation/wrong-answer", "RobustSign(b,c,a) != RobustSign(a,b,c)", det("rotation"))
	}
	if r := int(s2.RobustSign(c3, a, b)); r != got {
		c.Violation("RobustSign/rotation/wrong-answer", "RobustSign(c,a,b) != RobustSign(a,b,c)", det("rotation"))
	}
	if r := int(s2.RobustSign(c3, b, a)); r != -got {
		c.Violation("RobustSign/swap/wrong-answer", "RobustSign(c,b,a) != -RobustSign(a,b,c)", det("swap"))
	}
	if r := int(s2.RobustSign(b, a, c3)); r != -got {
		c.Violation("RobustSign/swap/wrong-answer", "RobustSign(b,a,c) != -RobustSign(a,b,c)", det("swap"))
	}
	// Sign: the one guarantee it documents.
	if s2.Sign(a, b, c3) && s2.Sign(c3, b, a) {
		c.Violation("Sign/both-ccw/wrong-answer", "Sign(a,b,c) && Sign(c,b,a)", det("Sign"))
	}
	// stages: a fast path may abstain but never lie
	tri := int(s2.VerifTriageSign(a, b, c3))
	if tri != 0 && tri != exact {
		c.Violation("triageSign/lies/wrong-answer", fmt.Sprintf("triageSign=%s exact=%s", dirStr(tri), dirStr(exact)), det("triageSign"))
	}
	if tri != 0 {
		c.Count("sign.decided.triage", 1)
		return
	}
	c.Distinct(gen.Bits(a, b, c3)...)
	if identical {
		c.Count("sign.decided.identical", 1)
		return
	}
	st := int(s2.VerifStableSign(a, b, c3))
	if st != 0 && st != exact {
		c.Violation("stableSign/lies/wrong-answer", fmt.Sprintf("stableSign=%s exact=%s", dirStr(st), dirStr(exact)), det("stableSign"))
	}
	ex := int(s2.VerifExactSign(a, b, c3, false))
	if ex != exact {
		c.Violation("exactSign/unperturbed/wrong-answer", fmt.Sprintf("exactSign(perturb=false)=%s exact=%s", dirStr(ex), dirStr(exact)), det("exactSign"))
	}
	exp := int(s2.VerifExactSign(a, b, c3, true))
	if exp != want {
		c.Violation("exactSign/perturbed/wrong-answer", fmt.Sprintf("exactSign(perturb=true)=%s reference=%s", dirStr(exp), dirStr(want)), det("exactSign"))
	}
	switch {
	case st != 0:
		c.Count("sign.decided.stable", 1)
	case exact != 0:
		c.Count("sign.decided.exact", 1)
	default:
		c.Count("sign.decided.symbolic", 1)
	}
}

func poolTriples(c *mon.Case) {
	ps := gen.Pool(c.R, 7+c.R.Intn(4))
	if c.I < 3 {
		c.Sample(map[string]any{"pool": gen.HexAll(ps...)})
	}
	n := len(ps)
	for k := 0; k < 40; k++ {
		i, j, l := c.R.Intn(n), c.R.Intn(n), c.R.Intn(n)
		checkTriple(c, ps[i], ps[j], ps[l])
	}
	// OrderedCCW on quadruples of the pool
	for k := 0; k < 10; k++ {
		a, b, cc, o := ps[c.R.Intn(n)], ps[c.R.Intn(n)], ps[c.R.Intn(n)], ps[c.R.Intn(n)]
		got := s2.OrderedCCW(a, b, cc, o)
		want := ref.OrderedCCW(gen.V(a), gen.V(b), gen.V(cc), gen.V(o))
		c.Count("orderedccw", 1)
		if got != want {
			c.Violation("OrderedCCW/wrong-answer", fmt.Sprintf("OrderedCCW=%v reference=%v", got, want), map[string]any{"a": gen.Hex(a), "b": gen.Hex(b), "c": gen.Hex(cc), "o": gen.Hex(o)})
		}
	}
}

func nearTriple(c *mon.Case) {
	r := c.R
	a := gen.Uniform(r)
	if r.Intn(4) == 0 {
		a = gen.Special(r)
	}
	var b s2.Point
	switch r.Intn(4) {
	case 0:
		b = gen.Near(r, a, gen.LogUniform(r, 1e-300, 1e-9))
	case 1:
		b = gen.Near(r, a, gen.LogUniform(r, 1e-9, 1))
	case 2:
		b = gen.Near(r, s2.Point{Vector: a.Mul(-1)}, gen.LogUniform(r, 1e-17, 1e-3)) // nearly antipodal
	default:
		b = gen.Uniform(r)
	}
	t := r.Float64()*3 - 1
	if r.Intn(3) == 0 {
		t = []float64{0, 1, 0.5, -1, 2}[r.Intn(5)]
	}
	p := gen.OnGreatCircle(r, a, b, t, r.Intn(4))
	if r.Intn(8) == 0 {
		p = gen.Near(r, a, gen.LogUniform(r, 1e-300, 1e-12))
	}
	if c.I < 3 {
		c.Sample(map[string]any{"a": gen.Hex(a), "b": gen.Hex(b), "c": gen.Hex(p)})
	}
	checkTriple(c, a, b, p)
}

// denormalTriple: points with zero coordinates (axes, coordinate planes, face diagonals) whose zeros are
// replaced by denormal-scale values, together with their exact twins: the determinant cancels from terms of
// size 1 down to about 2^-2148.
func denormalTriple(c *mon.Case) {
	r := c.R
	base := func() s2.Point {
		if r.Intn(3) == 0 {
			return gen.OnPlane(r, r.Intn(3))
		}
		return gen.Special(r)
	}
	a := base()
	b := gen.Denormalize(r, a)
	p := gen.Denormalize(r, base())
	switch r.Intn(4) {
	case 0:
		a = gen.Denormalize(r, a)
	case 1:
		b = gen.Denormalize(r, s2.Point{Vector: a.Mul(-1)})
	}
	if c.I < 3 {
		c.Sample(map[string]any{"a": gen.Hex(a), "b": gen.Hex(b), "c": gen.Hex(p)})
	}
	checkTriple(c, a, b, p)
}

// gp5: chirotope (Grassmann-Pluecker) consistency of RobustSign on 5-tuples.
// For any five vectors a,b,c,d,e:  [abc][ade] - [abd][ace] + [abe][acd] = 0,
// so the three signed products can never all have the same non-zero sign.
func gp5(c *mon.Case) {
	ps := gen.Pool(c.R, 5+c.R.Intn(3))
	// choose 5 distinct points
	var q []s2.Point
	for _, p := range ps {
		dup := false
		for _, x := range q {
			if x == p {
				dup = true
			}
		}
		if !dup {
			q = append(q, p)
		}
		if len(q) == 5 {
			break
		}
	}
	if len(q) < 5 {
		return
	}
	if c.I < 2 {
		c.Sample(map[string]any{"five": gen.HexAll(q...)})
	}
	sgn := func(i, j, k int) int { return int(s2.RobustSign(q[i], q[j], q[k])) }
	rsgn := func(i, j, k int) int { return ref.OrientExact(gen.V(q[i]), gen.V(q[j]), gen.V(q[k])) }
	perm := c.R.Perm(5)
	for rot := 0; rot < 5; rot++ {
		a, b, cc, d, e := perm[rot], perm[(rot+1)%5], perm[(rot+2)%5], perm[(rot+3)%5], perm[(rot+4)%5]
		for pass, f := range []func(i, j, k int) int{sgn, rsgn} {
			t1 := f(a, b, cc) * f(a, d, e)
			t2 := -f(a, b, d) * f(a, cc, e)
			t3 := f(a, b, e) * f(a, cc, d)
			c.Count("gp.relations", 1)
			if t1 == t2 && t2 == t3 && t1 != 0 {
				if pass == 1 {
					c.M.Broken("reference orientation violates a Grassmann-Pluecker relation: " + fmt.Sprint(gen.HexAll(q...)))
				} else {
					c.Violation("RobustSign/grassmann-pluecker/wrong-answer", "the signs of five points contradict every real configuration (3-term GP relation)", map[string]any{"five": gen.HexAll(q...), "order": []int{a, b, cc, d, e}})
				}
			}
		}
	}
	nz := 0
	for i := 0; i < 5; i++ {
		for j := i + 1; j < 5; j++ {
			for k := j + 1; k < 5; k++ {
				if ref.DetSign(gen.V(q[i]), gen.V(q[j]), gen.V(q[k])) == 0 {
					nz++
				}
			}
		}
	}
	if nz > 0 {
		c.Distinct(gen.Bits(q...)...)
		c.Count("gp.tuples_with_degenerate_triples", 1)
	}
}

// exactDet returns the exact determinant as a float64 (rounded once).
func exactDet(a, b, cc ref.V) float64 {
	l, e := ref.Lift(a, b, cc)
	d := ref.DetI(l[0], l[1], l[2])
	f := new(big.Float).SetPrec(200).SetInt(d)
	f.SetMantExp(f, 3*e)
	v, _ := f.Float64()
	return v
}

// errSearch: random local search over ulp moves maximising the rounding error
// of the triage determinant relative to the constant the code trusts. The
// search is steered by a double-double determinant (cheap); every reported
// number and verdict is recomputed with exact arithmetic.
func errSearch(c *mon.Case) {
	r := c.R
	sg := func() float64 {
		if r.Intn(2) == 0 {
			return -1
		}
		return 1
	}
	var a, b s2.Point
	if r.Intn(4) == 0 {
		a, b = gen.Uniform(r), gen.Uniform(r)
	} else {
		// all coordinates of comparable magnitude: every product in the determinant contributes rounding error
		a = gen.Near(r, s2.PointFromCoords(sg(), sg(), sg()), r.Float64()*0.3)
		b = gen.Near(r, s2.PointFromCoords(sg(), sg(), sg()), r.Float64()*0.3)
	}
	p := gen.OnGreatCircle(r, a, b, r.Float64()*3-1, 2)
	fl := func(a, b, p s2.Point) float64 { return a.Cross(b.Vector).Dot(p.Vector) }
	score := func(a, b, p s2.Point) float64 {
		return math.Abs(fl(a, b, p) - ref.DetDD(gen.V(a), gen.V(b), gen.V(p)))
	}
	best := score(a, b, p)
	steps := 3000
	for step := 0; step < steps; step++ {
		na, nb, np := a, b, p
		switch r.Intn(3) {
		case 0:
			na = gen.NudgeUlps(r, a, 1)
		case 1:
			nb = gen.NudgeUlps(r, b, 1)
		default:
			np = gen.NudgeUlps(r, p, 1)
		}
		if s := score(na, nb, np); s >= best {
			a, b, p, best = na, nb, np, s
			if s > 0.4*s2.VerifMaxDeterminantError {
				checkTriple(c, a, b, p) // a lie, if the constant is too small, shows here
			}
		}
	}
	c.Count("errsearch.steps", int64(steps))
	exactErr := math.Abs(fl(a, b, p) - exactDet(gen.V(a), gen.V(b), gen.V(p)))
	ratio := exactErr / s2.VerifMaxDeterminantError
	c.Max("triageSign.max_observed_error_over_maxDeterminantError", ratio)
	checkTriple(c, a, b, p)
	if ratio > 1 {
		c.Violation("triageSign/error-bound/"+mon.Severity(exactErr-s2.VerifMaxDeterminantError), fmt.Sprintf("float determinant error is %.3f x maxDeterminantError: the constant does not bound the rounding error", ratio), map[string]any{"a": gen.Hex(a), "b": gen.Hex(b), "c": gen.Hex(p), "error": exactErr})
	}
}

// ---- distance predicates ----

func reflectEqual(r *rand.Rand) (x, a, b s2.Point) {
	// x on a coordinate axis or diagonal; a and b mirror images: exactly equal distances.
	s, t, u := r.NormFloat64(), r.NormFloat64(), r.NormFloat64()
	if r.Intn(3) == 0 {
		u = math.Abs(u) * gen.LogUniform(r, 1e-12, 1)
	}
	switch r.Intn(4) {
	case 0:
		x = s2.PointFromCoords(0, 0, 1)
		a = s2.Point{Vector: r3.Vector{X: s, Y: t, Z: u}.Normalize()}
		b = s2.Point{Vector: r3.Vector{X: -a.X, Y: a.Y, Z: a.Z}}
	case 1:
		x = s2.PointFromCoords(0, 0, 1)
		a = s2.Point{Vector: r3.Vector{X: s, Y: t, Z: u}.Normalize()}
		b = s2.Point{Vector: r3.Vector{X: a.Y, Y: a.X, Z: a.Z}}
	case 2:
		x = s2.Point{Vector: r3.Vector{X: 1, Y: 1, Z: 0}.Normalize()}
		a = s2.Point{Vector: r3.Vector{X: s, Y: t, Z: u}.Normalize()}
		b = s2.Point{Vector: r3.Vector{X: a.Y, Y: a.X, Z: -a.Z}}
	default:
		// a and b project to the same point of the sphere: b = 2a scaled down is not unit; use equal points up to sign pattern
		x = gen.Uniform(r)
		a = gen.Uniform(r)
		b = a
	}
	return
}

// cmpDistsUlp: a and b within a few ulps per coordinate of x.
func cmpDistsUlp(c *mon.Case) {
	r := c.R
	x := gen.Uniform(r)
	if r.Intn(4) == 0 {
		x = gen.Special(r)
	}
	k := 1 + r.Intn(3)
	checkCmpDists(c, x, gen.NudgeUlps(r, x, k), gen.NudgeUlps(r, x, k))
}

func cmpDists(c *mon.Case) {
	r := c.R
	var x, a, b s2.Point
	switch r.Intn(8) {
	case 6, 7:
		// a and b within a few ulps per coordinate of x: distances of ~1e-16 rad, where only the
		// absolute terms of the sin^2 error bound protect the fast path
		x = gen.Uniform(r)
		if r.Intn(3) == 0 {
			x = gen.Special(r)
		}
		k := 1 + r.Intn(3)
		a = gen.NudgeUlps(r, x, k)
		b = gen.NudgeUlps(r, x, k)
	case 0, 1:
		x, a, b = reflectEqual(r)
	case 2:
		x = gen.Uniform(r)
		d := gen.LogUniform(r, 1e-300, 3.1)
		a = gen.Near(r, x, d)
		b = gen.Near(r, x, d)
		if r.Intn(2) == 0 {
			b = gen.NudgeUlps(r, b, 2)
		}
	case 3:
		x = gen.Uniform(r)
		a = gen.Near(r, s2.Point{Vector: x.Mul(-1)}, gen.LogUniform(r, 1e-17, 1e-2))
		b = gen.Near(r, s2.Point{Vector: x.Mul(-1)}, gen.LogUniform(r, 1e-17, 1e-2))
	case 4:
		ps := gen.Pool(r, 6)
		x, a, b = ps[r.Intn(6)], ps[r.Intn(6)], ps[r.Intn(6)]
	default:
		x, a, b = gen.Uniform(r), gen.Uniform(r), gen.Uniform(r)
		// distances near 90 degrees
		if r.Intn(2) == 0 {
			o := x.Ortho()
			a = gen.Near(r, s2.Point{Vector: o}, gen.LogUniform(r, 1e-17, 1e-3))
			b = gen.Near(r, s2.Point{Vector: o}, gen.LogUniform(r, 1e-17, 1e-3))
		}
	}
	checkCmpDists(c, x, a, b)
}

func checkCmpDists(c *mon.Case, x, a, b s2.Point) {
	if c.I < 3 {
		c.Sample(map[string]any{"x": gen.Hex(x), "a": gen.Hex(a), "b": gen.Hex(b)})
	}
	vx, va, vb := gen.V(x), gen.V(a), gen.V(b)
	exact := ref.CompareDistancesExact(vx, va, vb)
	if ref.CompareDistancesExact(vx, vb, va) != -exact {
		c.M.Broken("reference CompareDistancesExact not antisymmetric")
	}
	want := exact
	if exact == 0 {
		// documented pedestal rule: the lexicographically smaller point stands higher, so it is farther
		want = -ref.Cmp(va, vb)
	}
	det := map[string]any{"x": gen.Hex(x), "a": gen.Hex(a), "b": gen.Hex(b), "exact": exact, "reference": want}
	got := s2.CompareDistances(x, a, b)
	c.Count("cmpdists.calls", 1)
	if got != want {
		kind := "exact"
		if exact == 0 {
			kind = "symbolic"
		}
		c.Violation("CompareDistances/"+kind+"/wrong-answer", fmt.Sprintf("CompareDistances=%d reference=%d", got, want), det)
	}
	if s2.CompareDistances(x, b, a) != -got {
		c.Violation("CompareDistances/antisymmetry/wrong-answer", "CompareDistances(x,b,a) != -CompareDistances(x,a,b)", det)
	}
	if a != b && got == 0 {
		c.Violation("CompareDistances/zero-for-distinct/wrong-answer", "CompareDistances == 0 for a != b", det)
	}
	// stages
	tc := s2.VerifTriageCompareCosDistances(x, a, b)
	if tc != 0 && tc != exact {
		c.Violation("triageCompareCosDistances/lies/wrong-answer", fmt.Sprintf("stage=%d exact=%d", tc, exact), det)
	}
	if tc != 0 {
		c.Count("cmpdists.decided.cos", 1)
		return
	}
	c.Distinct(gen.Bits(x, a, b)...)
	if a == b {
		c.Count("cmpdists.decided.identical", 1)
		return
	}
	cosAX := a.Dot(x.Vector)
	ts := 0
	if cosAX > 1/math.Sqrt2 {
		ts = s2.VerifTriageCompareSin2Distances(x, a, b)
	} else if cosAX < -1/math.Sqrt2 {
		ts = -s2.VerifTriageCompareSin2Distances(x, a, b)
	}
	if ts != 0 && ts != exact {
		c.Violation("triageCompareSin2Distances/lies/wrong-answer", fmt.Sprintf("stage=%d exact=%d", ts, exact), det)
	}
	if e := s2.VerifExactCompareDistances(x, a, b); e != exact {
		c.Violation("exactCompareDistances/wrong-answer", fmt.Sprintf("stage=%d exact=%d", e, exact), det)
	}
	switch {
	case ts != 0:
		c.Count("cmpdists.decided.sin2", 1)
	case exact != 0:
		c.Count("cmpdists.decided.exact", 1)
	default:
		c.Count("cmpdists.decided.symbolic", 1)
	}
}

func cmpDist(c *mon.Case) {
	r := c.R
	var x, y s2.Point
	switch r.Intn(6) {
	case 5:
		x = gen.Uniform(r)
		y = gen.NudgeUlps(r, x, 1+r.Intn(3))
	case 0:
		x = gen.Uniform(r)
		y = gen.Near(r, x, gen.LogUniform(r, 1e-300, 3.1))
	case 1:
		x = gen.Special(r)
		y = gen.Special(r)
	case 2:
		ps := gen.Pool(r, 5)
		x, y = ps[0], ps[1+r.Intn(4)]
	case 3:
		x = gen.Uniform(r)
		y = gen.Near(r, s2.Point{Vector: x.Mul(-1)}, gen.LogUniform(r, 1e-17, 1e-2))
	default:
		x, y = gen.Uniform(r), gen.Uniform(r)
	}
	r2 := float64(s2.ChordAngleBetweenPoints(x, y))
	switch r.Intn(4) {
	case 0:
	case 1:
		for k := r.Intn(5) - 2; k != 0; {
			if k > 0 {
				r2 = math.Nextafter(r2, 5)
				k--
			} else {
				r2 = math.Nextafter(r2, -1)
				k++
			}
		}
	case 2:
		r2 = []float64{0, 1, 2, 3, 4, 0.5, 2 - math.Sqrt2}[r.Intn(7)]
	default:
		r2 = r.Float64() * 4
	}
	if r2 < 0 {
		r2 = 0
	}
	if r2 > 4 {
		r2 = 4
	}
	if c.I < 3 {
		c.Sample(map[string]any{"x": gen.Hex(x), "y": gen.Hex(y), "r2": fmt.Sprintf("%x", r2)})
	}
	exact := ref.CompareDistanceExact(gen.V(x), gen.V(y), r2)
	det := map[string]any{"x": gen.Hex(x), "y": gen.Hex(y), "r2": fmt.Sprintf("%x", r2), "exact": exact}
	got := s2.CompareDistance(x, y, s1.ChordAngle(r2))
	c.Count("cmpdist.calls", 1)
	if got != exact {
		c.Violation("CompareDistance/wrong-answer", fmt.Sprintf("CompareDistance=%d exact=%d", got, exact), det)
	}
	if s2.CompareDistance(y, x, s1.ChordAngle(r2)) != got {
		c.Violation("CompareDistance/symmetry/wrong-answer", "CompareDistance(y,x,r) != CompareDistance(x,y,r)", det)
	}
	tc := s2.VerifTriageCompareCosDistance(x, y, r2)
	if tc != 0 && tc != exact {
		c.Violation("triageCompareCosDistance/lies/wrong-answer", fmt.Sprintf("stage=%d exact=%d", tc, exact), det)
	}
	if tc != 0 {
		c.Count("cmpdist.decided.cos", 1)
		return
	}
	c.Distinct(append(gen.Bits(x, y), math.Float64bits(r2))...)
	ts := 0
	if r2 < 2-math.Sqrt2 {
		ts = s2.VerifTriageCompareSin2Distance(x, y, r2)
		if ts != 0 && ts != exact {
			c.Violation("triageCompareSin2Distance/lies/wrong-answer", fmt.Sprintf("stage=%d exact=%d", ts, exact), det)
		}
	}
	if e := s2.VerifExactCompareDistance(x, y, s1.ChordAngle(r2)); e != exact {
		c.Violation("exactCompareDistance/wrong-answer", fmt.Sprintf("stage=%d exact=%d", e, exact), det)
	}
	if ts != 0 {
		c.Count("cmpdist.decided.sin2", 1)
	} else {
		c.Count("cmpdist.decided.exact", 1)
	}
}

func signDot(c *mon.Case) {
	r := c.R
	var a, b s2.Point
	switch r.Intn(4) {
	case 0:
		a = gen.Uniform(r)
		b = gen.Near(r, s2.Point{Vector: a.Ortho()}, gen.LogUniform(r, 1e-300, 1e-10))
	case 1:
		a = gen.OnPlane(r, 0)
		b = s2.PointFromCoords(0, 0, 1)
		if r.Intn(2) == 0 {
			b = gen.NudgeUlps(r, b, 1)
		}
	case 2:
		ps := gen.Pool(r, 5)
		a, b = ps[0], ps[1+r.Intn(4)]
	default:
		a = gen.Uniform(r)
		o := a.Cross(gen.Uniform(r).Vector).Normalize()
		b = gen.NudgeUlps(r, s2.Point{Vector: o}, 2)
	}
	exact := ref.DotSign(gen.V(a), gen.V(b))
	got := s2.SignDotProd(a, b)
	c.Count("signdot.calls", 1)
	det := map[string]any{"a": gen.Hex(a), "b": gen.Hex(b), "exact": exact}
	if got != exact {
		c.Violation("SignDotProd/wrong-answer", fmt.Sprintf("SignDotProd=%d exact=%d", got, exact), det)
	}
	t := s2.VerifTriageSignDotProd(a, b)
	if t != 0 && t != exact {
		c.Violation("triageSignDotProd/lies/wrong-answer", fmt.Sprintf("stage=%d exact=%d", t, exact), det)
	}
	if t == 0 {
		c.Distinct(gen.Bits(a, b)...)
		c.Count("signdot.decided.exact", 1)
	}
}
