package mon

import (
	"encoding/binary"
	"fmt"
	"os"
	"os/exec"
	"path/filepath"
	"strconv"
	"strings"
	"sync"
	"syscall"
	"time"
)

// Crash-isolated execution of a stream: the index range is cut into chunks,
// each chunk runs in a child process (`<bin> worker <kind> lo hi out journal`)
// that journals the index of the case it is about to run. A child that dies
// (fatal error, deadlock reported by the Go runtime, rlimit kill) identifies
// the culprit through the journal; the rest of the chunk continues in a new
// child. Nothing here is decided by wall-clock time.

// Death describes an abnormal child exit.
type Death struct {
	Index  int64  // journalled case index
	Exit   string // "exit status 2", "signal killed", ...
	Stderr string // first fatal/panic line of the child's output
	Kind   string // "deadlock", "fatal", "killed"
}

// RunChildren runs cases [lo,hi) of a stream in child processes.
// onDeath turns a death into a violation (fingerprint without the property prefix, text, detail).
func RunChildren(m *M, kind, stream string, lo, hi int64, par int, onDeath func(d Death) (fp, what string, detail any)) {
	bin := os.Getenv("VERIF_BIN")
	if bin == "" {
		bin, _ = os.Executable()
	}
	work := filepath.Join(Root(), ".work", kind)
	os.MkdirAll(work, 0o755)
	chunk := (hi - lo + int64(par*4) - 1) / int64(par*4)
	if chunk < 1 {
		chunk = 1
	}
	type job struct{ lo, hi int64 }
	jobs := make(chan job, 4096)
	var wg sync.WaitGroup
	var mu sync.Mutex
	pending, deaths := 0, 0
	const maxDeaths = 12 // after that the verdict is already "violated": skip the remaining ranges
	add := func(j job) {
		mu.Lock()
		pending++
		mu.Unlock()
		jobs <- j
	}
	done := func() {
		mu.Lock()
		pending--
		if pending == 0 {
			close(jobs)
		}
		mu.Unlock()
	}
	go func() {
		for a := lo; a < hi; a += chunk {
			b := a + chunk
			if b > hi {
				b = hi
			}
			add(job{a, b})
		}
	}()
	for w := 0; w < par; w++ {
		wg.Add(1)
		go func(w int) {
			defer wg.Done()
			for j := range jobs {
				mu.Lock()
				skip := deaths >= maxDeaths
				mu.Unlock()
				if skip {
					m.Count("ranges_skipped_after_repeated_child_deaths", 1)
					done()
					continue
				}
				tag := fmt.Sprintf("%d-%d-%d", os.Getpid(), w, j.lo)
				out := filepath.Join(work, "out-"+tag+".json")
				jr := filepath.Join(work, "journal-"+tag)
				errf := filepath.Join(work, "stderr-"+tag)
				ef, _ := os.Create(errf)
				cmd := exec.Command(bin, "worker", kind, strconv.FormatInt(j.lo, 10), strconv.FormatInt(j.hi, 10), out, jr)
				cmd.Env = append(os.Environ(), "VERIF_SEED="+strconv.FormatInt(m.Seed, 10), "VERIF_TIER="+m.Tier, "VERIF_REPLAY=", "GOTRACEBACK=single")
				cmd.Stderr = ef
				cmd.Stdout = ef
				err, stalled := runWatched(cmd, jr)
				ef.Close()
				if merr := m.MergePartial(out); merr != nil && err == nil {
					m.Broken("child produced no result file: " + merr.Error())
				}
				if err != nil {
					mu.Lock()
					deaths++
					mu.Unlock()
					last := j.lo
					if b, e := os.ReadFile(jr); e == nil && len(b) >= 8 {
						last = int64(binary.LittleEndian.Uint64(b))
					}
					tail, _ := os.ReadFile(errf)
					d := Death{Index: last, Exit: err.Error(), Stderr: firstFatalLine(string(tail)), Kind: "fatal"}
					if stalled {
						// the child made no progress (no CPU time, same journal entry) and was asked for a goroutine dump
						if blocked, why := allGoroutinesBlocked(string(tail)); blocked {
							d.Kind, d.Stderr = "deadlock", "no goroutine can run, every one waits for a lock or for another goroutine"
							d.Exit += " after SIGQUIT from the progress watchdog; dump: " + why
						} else {
							m.Inconclusive(fmt.Sprintf("%s case %d: child stopped making progress but its goroutine dump is not a deadlock (%s)", stream, last, why))
							m.AddEvals(last - j.lo + 1)
							if last+1 < j.hi {
								add(job{last + 1, j.hi})
							}
							os.Remove(out)
							os.Remove(jr)
							os.Remove(errf)
							done()
							continue
						}
					}
					if ee, ok := err.(*exec.ExitError); ok {
						if st, ok := ee.Sys().(syscall.WaitStatus); ok && st.Signaled() {
							d.Exit = "signal " + st.Signal().String()
							d.Kind = "killed"
						}
					}
					if strings.Contains(d.Stderr, "all goroutines are asleep") {
						d.Kind = "deadlock"
					}
					fp, what, detail := onDeath(d)
					m.ViolationAt(stream, last, fp, what, detail)
					m.SampleAny(stream, detail)
					m.AddEvals(last - j.lo + 1)
					if last+1 < j.hi {
						add(job{last + 1, j.hi})
					}
				}
				os.Remove(out)
				os.Remove(jr)
				os.Remove(errf)
				done()
			}
		}(w)
	}
	wg.Wait()
}

// runWatched runs the child and watches its progress: if neither its CPU time nor its journal entry changes
// for two minutes it is sent SIGQUIT (the Go runtime then dumps every goroutine) and stalled is true. The
// watchdog itself decides nothing: the dump does (allGoroutinesBlocked).
func runWatched(cmd *exec.Cmd, journal string) (err error, stalled bool) {
	if err = cmd.Start(); err != nil {
		return err, false
	}
	done := make(chan error, 1)
	go func() { done <- cmd.Wait() }()
	tick := time.NewTicker(5 * time.Second)
	defer tick.Stop()
	idle, lastCPU, lastJ := 0, int64(-1), int64(-1)
	for {
		select {
		case err = <-done:
			return err, stalled
		case <-tick.C:
			cpu, j := procCPU(cmd.Process.Pid), int64(-1)
			if b, e := os.ReadFile(journal); e == nil && len(b) >= 8 {
				j = int64(binary.LittleEndian.Uint64(b))
			}
			if cpu == lastCPU && j == lastJ {
				idle++
			} else {
				idle = 0
			}
			lastCPU, lastJ = cpu, j
			if idle == 24 {
				stalled = true
				cmd.Process.Signal(syscall.SIGQUIT)
			}
			if idle >= 30 {
				cmd.Process.Kill()
			}
		}
	}
}

// procCPU returns utime+stime (clock ticks) of a process, -2 if unknown.
func procCPU(pid int) int64 {
	b, err := os.ReadFile(fmt.Sprintf("/proc/%d/stat", pid))
	if err != nil {
		return -2
	}
	s := string(b)
	if i := strings.LastIndex(s, ")"); i >= 0 {
		f := strings.Fields(s[i+1:])
		if len(f) > 13 {
			u, _ := strconv.ParseInt(f[11], 10, 64)
			k, _ := strconv.ParseInt(f[12], 10, 64)
			return u + k
		}
	}
	return -2
}

// allGoroutinesBlocked inspects a SIGQUIT goroutine dump: a deadlock is a state in which every goroutine
// waits for another one (lock, wait group, channel, condition) and at least one waits for a lock.
func allGoroutinesBlocked(dump string) (bool, string) {
	n, locks := 0, 0
	for _, ln := range strings.Split(dump, "\n") {
		if !strings.HasPrefix(ln, "goroutine ") || !strings.Contains(ln, "[") {
			continue
		}
		st := ln[strings.Index(ln, "[")+1:]
		if i := strings.IndexAny(st, ",]"); i >= 0 {
			st = st[:i]
		}
		n++
		switch {
		case strings.HasPrefix(st, "sync.Mutex.Lock"), strings.HasPrefix(st, "sync.RWMutex"), strings.HasPrefix(st, "semacquire"):
			locks++
		case strings.HasPrefix(st, "sync.WaitGroup.Wait"), strings.HasPrefix(st, "chan receive"), strings.HasPrefix(st, "chan send"), strings.HasPrefix(st, "select"), strings.HasPrefix(st, "sync.Cond.Wait"),
			strings.HasPrefix(st, "GC "), strings.HasPrefix(st, "finalizer wait"), strings.HasPrefix(st, "force gc"), strings.HasPrefix(st, "idle"), strings.HasPrefix(st, "debug call"), strings.HasPrefix(st, "cleanup wait"):
		default:
			return false, fmt.Sprintf("a goroutine is in state %q", st)
		}
	}
	if n == 0 {
		return false, "no goroutine dump"
	}
	if locks == 0 {
		return false, "no goroutine waits for a lock"
	}
	return true, fmt.Sprintf("%d goroutines, %d of them waiting for a lock, the others for those", n, locks)
}

func firstFatalLine(s string) string {
	for _, ln := range strings.Split(s, "\n") {
		if strings.HasPrefix(ln, "fatal error:") || strings.HasPrefix(ln, "panic:") || strings.Contains(ln, "runtime: out of memory") || strings.HasPrefix(ln, "SIG") {
			return ln
		}
	}
	if len(s) > 200 {
		s = s[:200]
	}
	return strings.TrimSpace(s)
}

// Shorten makes a string usable inside a fingerprint.
func Shorten(s string) string {
	s = strings.TrimSpace(s)
	if len(s) > 60 {
		s = s[:60]
	}
	return strings.ReplaceAll(s, "/", "_")
}

// ChildMain is the worker side: args are lo hi out journal.
func ChildMain(prop, stream string, args []string, asBytes, cpuSeconds uint64, f func(c *Case)) {
	if len(args) != 4 {
		fmt.Fprintln(os.Stderr, "usage: worker <kind> lo hi out journal")
		os.Exit(2)
	}
	lo, _ := strconv.ParseInt(args[0], 10, 64)
	hi, _ := strconv.ParseInt(args[1], 10, 64)
	if asBytes > 0 {
		syscall.Setrlimit(syscall.RLIMIT_AS, &syscall.Rlimit{Cur: asBytes, Max: asBytes})
	}
	if cpuSeconds > 0 {
		syscall.Setrlimit(syscall.RLIMIT_CPU, &syscall.Rlimit{Cur: cpuSeconds, Max: cpuSeconds})
	}
	m := New(prop)
	jf, err := os.OpenFile(args[3], os.O_CREATE|os.O_RDWR, 0o644)
	if err != nil {
		fmt.Fprintln(os.Stderr, err)
		os.Exit(2)
	}
	var jb [8]byte
	m.StreamRange(stream, lo, hi, func(i int64) {
		binary.LittleEndian.PutUint64(jb[:], uint64(i))
		jf.WriteAt(jb[:], 0)
	}, f)
	if err := m.DumpPartial(args[2]); err != nil {
		fmt.Fprintln(os.Stderr, err)
		os.Exit(2)
	}
	os.Exit(0)
}
