// Package mon is the monitor runtime shared by all property monitors:
// deterministic parallel case streams, event counters, distinct-case
// hashing, three-valued verdicts, evidence and replay files, and the
// known-findings matcher.
package mon

import (
	"encoding/json"
	"fmt"
	"hash/fnv"
	"math"
	"math/rand"
	"os"
	"path/filepath"
	"runtime"
	"sort"
	"strconv"
	"strings"
	"sync"
	"sync/atomic"
	"time"
)

// Root is the /verif directory (the check script exports VERIF_ROOT).
func Root() string {
	if r := os.Getenv("VERIF_ROOT"); r != "" {
		return r
	}
	return "/verif"
}

type Violation struct {
	Fingerprint string `json:"fingerprint"`
	What        string `json:"what"`
	Stream      string `json:"stream"`
	Index       int64  `json:"index"`
	Seed        int64  `json:"seed"`
	Tier        string `json:"tier"`
	Property    string `json:"property"`
	Detail      any    `json:"detail,omitempty"`
	Count       int64  `json:"count"`
	Known       bool   `json:"known"`
	ReplayPath  string `json:"-"`
}

type Finding struct {
	Status      string `json:"status"` // known | fixed
	Property    string `json:"property"`
	Fingerprint string `json:"fingerprint"` // exact, or prefix when it ends in '*'
	What        string `json:"what"`
	Input       any    `json:"input_or_history,omitempty"`
	Commit      string `json:"commit,omitempty"`
}

type floor struct {
	counter string
	min     int64
}

type replaySpec struct {
	Stream string
	Index  int64
}

// M is one monitor run for one property.
type M struct {
	Prop, Tier string
	Seed       int64

	mu          sync.Mutex
	counters    map[string]int64
	maxes       map[string]float64
	distinct    map[uint64]struct{}
	distinctCap bool
	samples     map[string][]any
	sampleOrder []string
	viols       map[string]*Violation
	floors      []floor
	broken      []string
	inconcl     []string
	start       time.Time
	Rule        string
	Assumptions []string
	Extra       map[string]any
	Exhaustive  bool
	replay      *replaySpec
	known       []Finding
	evals       int64
}

const maxDistinct = 6_000_000

func New(prop string) *M {
	m := &M{Prop: prop, Tier: os.Getenv("VERIF_TIER"), Seed: 1,
		counters: map[string]int64{}, maxes: map[string]float64{}, distinct: map[uint64]struct{}{},
		samples: map[string][]any{}, viols: map[string]*Violation{}, Extra: map[string]any{}, start: time.Now()}
	if m.Tier != "thorough" {
		m.Tier = "quick"
	}
	if s := os.Getenv("VERIF_SEED"); s != "" {
		if v, err := strconv.ParseInt(s, 10, 64); err == nil {
			m.Seed = v
		}
	}
	m.known = LoadFindings(prop)
	if rp := os.Getenv("VERIF_REPLAY"); rp != "" {
		b, err := os.ReadFile(rp)
		if err != nil {
			fmt.Fprintf(os.Stderr, "cannot read replay %s: %v\n", rp, err)
			os.Exit(2)
		}
		var v Violation
		if err := json.Unmarshal(b, &v); err != nil {
			fmt.Fprintf(os.Stderr, "bad replay %s: %v\n", rp, err)
			os.Exit(2)
		}
		m.Seed, m.Tier = v.Seed, v.Tier
		m.replay = &replaySpec{v.Stream, v.Index}
	} else {
		// replay files are rewritten by every run: remove this property's old ones
		if old, err := filepath.Glob(filepath.Join(Root(), "replays", prop+"-*.json")); err == nil {
			for _, f := range old {
				os.Remove(f)
			}
		}
	}
	return m
}

func LoadFindings(prop string) []Finding {
	var out []Finding
	b, err := os.ReadFile(filepath.Join(Root(), "known_findings.jsonl"))
	if err != nil {
		return nil
	}
	for _, ln := range strings.Split(string(b), "\n") {
		ln = strings.TrimSpace(ln)
		if ln == "" || strings.HasPrefix(ln, "#") {
			continue
		}
		var f Finding
		if json.Unmarshal([]byte(ln), &f) == nil && f.Property == prop {
			out = append(out, f)
		}
	}
	return out
}

func (m *M) isKnown(fp string) (Finding, bool) {
	for _, f := range m.known {
		if f.Status != "known" {
			continue
		}
		if f.Fingerprint == fp || (strings.HasSuffix(f.Fingerprint, "*") && strings.HasPrefix(fp, strings.TrimSuffix(f.Fingerprint, "*"))) {
			return f, true
		}
	}
	return Finding{}, false
}

// Replaying reports whether this run only replays one recorded case.
func (m *M) Replaying() bool { return m.replay != nil }

// N picks the workload size for the tier.
func (m *M) N(quick, thorough int) int {
	if m.Tier == "thorough" {
		return thorough
	}
	return quick
}

// Require declares that a counter must reach min, else the run is inconclusive.
func (m *M) Require(counter string, min int64) {
	m.floors = append(m.floors, floor{counter, min})
}

// Broken records a failure of the monitor's own trusted base (oracle law).
func (m *M) Broken(msg string) {
	m.mu.Lock()
	if len(m.broken) < 20 {
		m.broken = append(m.broken, msg)
	}
	m.mu.Unlock()
}

func (m *M) Inconclusive(msg string) {
	m.mu.Lock()
	if len(m.inconcl) < 20 {
		m.inconcl = append(m.inconcl, msg)
	}
	m.mu.Unlock()
}

func (m *M) Count(name string, n int64) {
	m.mu.Lock()
	m.counters[name] += n
	m.mu.Unlock()
}

func (m *M) Counter(name string) int64 {
	m.mu.Lock()
	defer m.mu.Unlock()
	return m.counters[name]
}

func (m *M) Max(name string, v float64) {
	m.mu.Lock()
	if old, ok := m.maxes[name]; !ok || v > old {
		m.maxes[name] = v
	}
	m.mu.Unlock()
}

// Case is one generated case of a stream. All of its randomness comes from R,
// which is seeded from (run seed, stream name, index) only.
type Case struct {
	M      *M
	Stream string
	I      int64
	R      *rand.Rand
	w      *worker
}

type worker struct {
	counters map[string]int64
	maxes    map[string]float64
	distinct map[uint64]struct{}
}

// CaseSeed is the PRNG seed of case i of a stream: a function of (run seed, stream name, index) only.
func CaseSeed(seed int64, stream string, i int64) int64 { return caseSeed(seed, stream, i) }

func caseSeed(seed int64, stream string, i int64) int64 {
	h := fnv.New64a()
	var b [8]byte
	put := func(v uint64) {
		for k := 0; k < 8; k++ {
			b[k] = byte(v >> (8 * k))
		}
		h.Write(b[:])
	}
	put(uint64(seed))
	h.Write([]byte(stream))
	put(uint64(i))
	return int64(h.Sum64() & 0x7fffffffffffffff)
}

func (c *Case) Count(name string, n int64) { c.w.counters[name] += n }
func (c *Case) Max(name string, v float64) {
	if old, ok := c.w.maxes[name]; !ok || v > old {
		c.w.maxes[name] = v
	}
}

// Distinct registers this case (identified by the canonical bits in parts) as
// a distinct non-trivial case under the monitor's stated rule.
func (c *Case) Distinct(parts ...uint64) {
	h := fnv.New64a()
	h.Write([]byte(c.Stream))
	var b [8]byte
	for _, v := range parts {
		for k := 0; k < 8; k++ {
			b[k] = byte(v >> (8 * k))
		}
		h.Write(b[:])
	}
	c.w.distinct[h.Sum64()] = struct{}{}
}

// DistinctF hashes float64 bit patterns.
func (c *Case) DistinctF(vals ...float64) {
	u := make([]uint64, len(vals))
	for i, v := range vals {
		u[i] = math.Float64bits(v)
	}
	c.Distinct(u...)
}

// Sample keeps up to 3 written-out cases per stream for the evidence file.
func (c *Case) Sample(v any) {
	m := c.M
	m.mu.Lock()
	if len(m.samples[c.Stream]) < 3 {
		if _, ok := m.samples[c.Stream]; !ok {
			m.sampleOrder = append(m.sampleOrder, c.Stream)
		}
		m.samples[c.Stream] = append(m.samples[c.Stream], map[string]any{"stream": c.Stream, "index": c.I, "case": v})
	}
	m.mu.Unlock()
}

// Violation records a refutation of the property. fp identifies the call site
// or law plus a severity bucket; the first witness per fingerprint is written
// to a replay file.
func (c *Case) Violation(fp, what string, detail any) {
	c.M.violation(c.Stream, c.I, fp, what, detail)
}

func (m *M) violation(stream string, idx int64, fp, what string, detail any) {
	fp = m.Prop + "/" + fp
	m.mu.Lock()
	defer m.mu.Unlock()
	if v, ok := m.viols[fp]; ok {
		v.Count++
		if idx < v.Index && stream == v.Stream { // keep the smallest index: deterministic witness
			v.Index, v.What, v.Detail = idx, what, detail
		}
		return
	}
	_, known := m.isKnown(fp)
	m.viols[fp] = &Violation{Fingerprint: fp, What: what, Stream: stream, Index: idx, Seed: m.Seed, Tier: m.Tier, Property: m.Prop, Detail: detail, Count: 1, Known: known}
}

// ViolationAt is for monitors that run outside Stream (child-process drivers).
func (m *M) ViolationAt(stream string, idx int64, fp, what string, detail any) {
	m.violation(stream, idx, fp, what, detail)
}

// LibFrame returns the innermost github.com/golang/geo frame of the current
// (panicking) stack, used to fingerprint panics by call site.
func LibFrame() string {
	pcs := make([]uintptr, 64)
	n := runtime.Callers(2, pcs)
	fr := runtime.CallersFrames(pcs[:n])
	for {
		f, more := fr.Next()
		if strings.Contains(f.Function, "github.com/golang/geo/") {
			fn := f.Function[strings.LastIndex(f.Function, "/")+1:]
			return fn
		}
		if !more {
			break
		}
	}
	return "unknown"
}

// Stream runs f on cases 0..n-1 in parallel. A panic inside a case is a
// violation (fingerprinted by the innermost library frame) unless the monitor
// handles it itself.
func (m *M) Stream(name string, n int, f func(c *Case)) {
	lo, hi := int64(0), int64(n)
	if m.replay != nil {
		if m.replay.Stream != name {
			return
		}
		lo, hi = m.replay.Index, m.replay.Index+1
	}
	nw := runtime.GOMAXPROCS(0)
	if int64(nw) > hi-lo {
		nw = int(hi - lo)
	}
	if nw < 1 {
		return
	}
	next := lo
	var wg sync.WaitGroup
	workers := make([]*worker, nw)
	for k := 0; k < nw; k++ {
		w := &worker{map[string]int64{}, map[string]float64{}, map[uint64]struct{}{}}
		workers[k] = w
		wg.Add(1)
		go func() {
			defer wg.Done()
			for {
				i := atomic.AddInt64(&next, 1) - 1
				if i >= hi {
					return
				}
				c := &Case{M: m, Stream: name, I: i, R: rand.New(rand.NewSource(caseSeed(m.Seed, name, i))), w: w}
				m.runCase(c, f)
			}
		}()
	}
	wg.Wait()
	m.mu.Lock()
	for _, w := range workers {
		for k, v := range w.counters {
			m.counters[k] += v
		}
		for k, v := range w.maxes {
			if old, ok := m.maxes[k]; !ok || v > old {
				m.maxes[k] = v
			}
		}
		for k := range w.distinct {
			if len(m.distinct) >= maxDistinct {
				m.distinctCap = true
				break
			}
			m.distinct[k] = struct{}{}
		}
	}
	m.evals += hi - lo
	m.counters["cases."+name] += hi - lo
	m.mu.Unlock()
}

func (m *M) runCase(c *Case, f func(c *Case)) {
	defer func() {
		if r := recover(); r != nil {
			fn := LibFrame()
			msg := fmt.Sprint(r)
			if len(msg) > 200 {
				msg = msg[:200]
			}
			c.Violation(c.Stream+"/panic/"+fn, "panic in "+fn+": "+msg, nil)
		}
	}()
	f(c)
}

// Severity buckets an excess over a bound (relative to eps-scale units).
func Severity(excess float64) string {
	switch {
	case excess <= 8*2.220446049250313e-16:
		return "ulp"
	case excess <= 1e-12:
		return "small"
	default:
		return "gross"
	}
}

// Finish writes evidence and replay files, prints the verdict lines and
// returns the process exit code.
func (m *M) Finish() int {
	m.mu.Lock()
	defer m.mu.Unlock()
	root := Root()
	var fps []string
	for fp := range m.viols {
		fps = append(fps, fp)
	}
	sort.Strings(fps)
	exit := 0
	unknown := 0
	for _, fp := range fps {
		v := m.viols[fp]
		if v.Known {
			f, _ := m.isKnown(fp)
			what := f.What
			if len(what) > 180 {
				what = what[:180] + "... (full text in known_findings.jsonl)"
			}
			fmt.Printf("KNOWN-FINDING: property=%s [%s] %s (%d occurrences this run)\n", m.Prop, fp, what, v.Count)
			continue
		}
		unknown++
		h := fnv.New32a()
		h.Write([]byte(fp))
		dir := filepath.Join(root, "replays")
		os.MkdirAll(dir, 0o755)
		p := filepath.Join(dir, fmt.Sprintf("%s-%08x.json", m.Prop, h.Sum32()))
		b, _ := json.MarshalIndent(v, "", " ")
		os.WriteFile(p, b, 0o644)
		v.ReplayPath = p
		fmt.Printf("VIOLATION property=%s replay=%s\n", m.Prop, p)
		fmt.Printf("  fingerprint=%s count=%d what=%s\n", fp, v.Count, v.What)
		exit = 1
	}
	for _, b := range m.broken {
		fmt.Printf("BROKEN-CHECK property=%s %s\n", m.Prop, b)
		if exit == 0 {
			exit = 2
		}
	}
	if m.replay == nil {
		for _, fl := range m.floors {
			if m.counters[fl.counter] < fl.min {
				m.inconcl = append(m.inconcl, fmt.Sprintf("counter %s=%d below floor %d", fl.counter, m.counters[fl.counter], fl.min))
			}
		}
	}
	for _, s := range m.inconcl {
		fmt.Printf("INCONCLUSIVE property=%s %s\n", m.Prop, s)
		if exit == 0 {
			exit = 3
		}
	}
	wall := time.Since(m.start).Seconds()
	if m.replay != nil {
		fmt.Printf("replay of %s[%d]: %d violation fingerprint(s)\n", m.replay.Stream, m.replay.Index, len(fps))
		return exit
	}
	// evidence
	var samples []any
	for _, s := range m.sampleOrder {
		samples = append(samples, m.samples[s]...)
	}
	if len(samples) > 24 {
		samples = samples[:24]
	}
	if samples == nil {
		samples = []any{}
	}
	cov := map[string]any{
		"evaluations":         m.evals,
		"distinct_nontrivial": len(m.distinct),
		"rule":                m.Rule,
		"samples":             samples,
		"counters":            m.counters,
		"extremes":            m.maxes,
		"exhaustive":          m.Exhaustive,
	}
	if m.distinctCap {
		cov["distinct_capped_at"] = maxDistinct
	}
	for k, v := range m.Extra {
		cov[k] = v
	}
	var vl []any
	for _, fp := range fps {
		v := m.viols[fp]
		vl = append(vl, map[string]any{"fingerprint": fp, "count": v.Count, "known": v.Known, "what": v.What})
	}
	cov["violation_fingerprints"] = vl
	ev := map[string]any{
		"property_id": m.Prop, "tier": m.Tier, "seed": m.Seed, "level": "exploration",
		"coverage": cov, "assumptions": m.Assumptions, "wall_s": math.Round(wall*100) / 100, "violations": unknown,
		"verdict": map[int]string{0: "held on what was observed", 1: "violated", 2: "broken check (oracle law failed)", 3: "inconclusive"}[exit],
	}
	b, _ := json.MarshalIndent(ev, "", " ")
	os.MkdirAll(filepath.Join(root, "evidence"), 0o755)
	os.WriteFile(filepath.Join(root, "evidence", m.Prop+".json"), b, 0o644)
	fmt.Printf("%s %s seed=%d: evaluations=%d distinct_nontrivial=%d violations=%d known=%d wall=%.1fs verdict=%v\n",
		m.Prop, m.Tier, m.Seed, m.evals, len(m.distinct), unknown, len(fps)-unknown, wall, ev["verdict"])
	return exit
}

// AddEvals lets drivers that do not use Stream account for evaluations.
func (m *M) AddEvals(n int64) { m.mu.Lock(); m.evals += n; m.mu.Unlock() }

// DistinctKey registers a distinct case from outside a Stream.
func (m *M) DistinctKey(s string) {
	h := fnv.New64a()
	h.Write([]byte(s))
	m.mu.Lock()
	if len(m.distinct) < maxDistinct {
		m.distinct[h.Sum64()] = struct{}{}
	}
	m.mu.Unlock()
}

// SampleAny adds a sample from outside a Stream.
func (m *M) SampleAny(stream string, v any) {
	m.mu.Lock()
	if len(m.samples[stream]) < 3 {
		if _, ok := m.samples[stream]; !ok {
			m.sampleOrder = append(m.sampleOrder, stream)
		}
		m.samples[stream] = append(m.samples[stream], map[string]any{"stream": stream, "case": v})
	}
	m.mu.Unlock()
}

// ---- support for crash-isolated child workers ----

// Partial is what a child worker reports back to the parent.
type Partial struct {
	Counters map[string]int64      `json:"counters"`
	Maxes    map[string]float64    `json:"maxes"`
	Distinct []uint64              `json:"distinct"`
	Samples  map[string][]any      `json:"samples"`
	Viols    map[string]*Violation `json:"viols"`
	Evals    int64                 `json:"evals"`
	Broken   []string              `json:"broken"`
}

// StreamRange is Stream restricted to indices [lo,hi) run by ONE goroutine in
// index order (children attribute allocations and crashes to single cases).
// before is called with the index before each case starts (journal).
func (m *M) StreamRange(name string, lo, hi int64, before func(i int64), f func(c *Case)) {
	w := &worker{map[string]int64{}, map[string]float64{}, map[uint64]struct{}{}}
	for i := lo; i < hi; i++ {
		if before != nil {
			before(i)
		}
		c := &Case{M: m, Stream: name, I: i, R: rand.New(rand.NewSource(caseSeed(m.Seed, name, i))), w: w}
		m.runCase(c, f)
	}
	m.mu.Lock()
	for k, v := range w.counters {
		m.counters[k] += v
	}
	for k, v := range w.maxes {
		if old, ok := m.maxes[k]; !ok || v > old {
			m.maxes[k] = v
		}
	}
	for k := range w.distinct {
		m.distinct[k] = struct{}{}
	}
	m.evals += hi - lo
	m.counters["cases."+name] += hi - lo
	m.mu.Unlock()
}

// DumpPartial writes this monitor's observations to path (child side).
func (m *M) DumpPartial(path string) error {
	m.mu.Lock()
	defer m.mu.Unlock()
	p := Partial{Counters: m.counters, Maxes: m.maxes, Samples: m.samples, Viols: m.viols, Evals: m.evals, Broken: m.broken}
	for k := range m.distinct {
		p.Distinct = append(p.Distinct, k)
	}
	b, err := json.Marshal(p)
	if err != nil {
		return err
	}
	return os.WriteFile(path, b, 0o644)
}

// MergePartial folds a child's observations into the parent.
func (m *M) MergePartial(path string) error {
	b, err := os.ReadFile(path)
	if err != nil {
		return err
	}
	var p Partial
	if err := json.Unmarshal(b, &p); err != nil {
		return err
	}
	m.mu.Lock()
	defer m.mu.Unlock()
	for k, v := range p.Counters {
		m.counters[k] += v
	}
	for k, v := range p.Maxes {
		if old, ok := m.maxes[k]; !ok || v > old {
			m.maxes[k] = v
		}
	}
	for _, k := range p.Distinct {
		if len(m.distinct) < maxDistinct {
			m.distinct[k] = struct{}{}
		}
	}
	for s, v := range p.Samples {
		if _, ok := m.samples[s]; !ok {
			m.sampleOrder = append(m.sampleOrder, s)
		}
		for _, x := range v {
			if len(m.samples[s]) < 3 {
				m.samples[s] = append(m.samples[s], x)
			}
		}
	}
	for fp, v := range p.Viols {
		if old, ok := m.viols[fp]; ok {
			old.Count += v.Count
			if v.Stream == old.Stream && v.Index < old.Index {
				old.Index, old.What, old.Detail = v.Index, v.What, v.Detail
			}
		} else {
			_, known := m.isKnown(fp)
			v.Known = known
			m.viols[fp] = v
		}
	}
	m.evals += p.Evals
	m.broken = append(m.broken, p.Broken...)
	return nil
}

// ReplayIndex returns the (stream, index) of the replay request, if any.
func (m *M) ReplayIndex() (string, int64, bool) {
	if m.replay == nil {
		return "", 0, false
	}
	return m.replay.Stream, m.replay.Index, true
}
