// Package c04 monitors C04: point containment is a parity of exact crossings,
// identical on every evaluation path, and partitions the sphere.
package c04

import (
	"fmt"
	"math"
	"math/rand"

	"github.com/golang/geo/s2"

	"verif/internal/gen"
	"verif/internal/mon"
	"verif/internal/ref"
)

func refDir(v ref.V) ref.V { return gen.V(s2.Ortho(gen.P(v))) }

var origin = gen.V(s2.OriginPoint())

func Run(m *mon.M) {
	m.Rule = "star-shaped/regular/cell-snapped loops (3..600 vertices quick, ..10^4 thorough; radius 1e-7..1.5 rad; centred at poles, antimeridian, cube corners/edges, anywhere; also reversed), concentric polygons with holes given in shuffled order, and cell tilings (levels 0..2 quick, ..3 thorough); probes: every kind of boundary point (vertices, points on edges, +-1..3 ulps off them), cell centres/vertices around the shape, origin, poles, centre and antipode. A probe evaluation is non-trivial and distinct when the (shape, probe) bits are new AND the probe is a boundary probe (vertex / on-edge / ulp neighbour) or a cell vertex/centre"
	m.Assumptions = []string{"internal/ref parity model: exact crossings (C03) from OriginPoint() with the origin bit fixed by the documented vertex rule at vertex 1", "generated loops are simple by construction (star-shaped around a centre, radius < pi/2)"}
	m.Require("loop.index_path_probes", 5000)
	m.Require("loop.brute_path_probes", 5000)
	m.Require("hook.contains_center_checked", 2000)
	m.Require("tiling.probes", 5000)
	m.Require("loop.vertices_at_index_cell_centre", 50)
	m.Require("polygon.probes", 5000)
	m.Require("polygon.many_loops", 100)
	maxN := m.N(600, 10000)
	// thorough: loops of up to 10^4 vertices in one case out of twelve (each costs ~1 s of exact arithmetic), 1200 otherwise
	m.Stream("loop", m.N(5000, 250000), func(c *mon.Case) {
		n := maxN
		if n > 1200 && c.I%12 != 0 {
			n = 1200
		}
		loopCase(c, n)
	})
	m.Stream("polygon", m.N(2000, 100000), polygonCase)
	m.Stream("tiling", m.N(600, 20000), func(c *mon.Case) { tilingCase(c, m.N(2, 3)) })
	m.Stream("tiling.local", m.N(20000, 1000000), localTilingCase)
}

func probesFor(r *rand.Rand, sp gen.LoopSpec, nb, nc int) (ps []s2.Point, boundary []bool) {
	b := gen.BoundaryProbes(r, sp.Vs, nb)
	ps = append(ps, b...)
	for range b {
		boundary = append(boundary, true)
	}
	cp := gen.CellProbes(r, append(append([]s2.Point{}, sp.Vs...), sp.Center), nc)
	ps = append(ps, cp...)
	for range cp {
		boundary = append(boundary, true)
	}
	extra := []s2.Point{sp.Center, {Vector: sp.Center.Mul(-1)}, s2.OriginPoint(), s2.PointFromCoords(0, 0, 1), s2.PointFromCoords(0, 0, -1), gen.Uniform(r), gen.Uniform(r)}
	for k := 0; k < 6; k++ {
		extra = append(extra, gen.Near(r, sp.Center, r.Float64()*2*sp.RMax))
	}
	ps = append(ps, extra...)
	for range extra {
		boundary = append(boundary, false)
	}
	return
}

func loopCase(c *mon.Case, maxN int) {
	r := c.R
	sp := gen.RandLoopSpec(r, maxN)
	// one case in four: move vertices onto the centre of the index cell that contains them, so that the
	// segment "cell centre -> probe" used by the indexed paths starts exactly at a loop vertex
	var vertexCells []s2.CellID
	if r.Intn(4) == 0 {
		for round := 0; round < 3; round++ {
			idx := s2.NewShapeIndex()
			idx.Add(s2.LaxLoopFromPoints(append([]s2.Point(nil), sp.Vs...)))
			idx.Build()
			it := idx.Iterator()
			i := r.Intn(len(sp.Vs))
			if !it.LocatePoint(sp.Vs[i]) {
				continue
			}
			cand := append([]s2.Point(nil), sp.Vs...)
			cand[i] = it.CellID().Point()
			if ok, rmin, rmax := gen.StarOK(sp.Center, cand); ok {
				sp.Vs, sp.RMin, sp.RMax = cand, rmin, rmax
				sp.Kind += "+vertex-at-index-cell-centre"
			}
		}
		idx := s2.NewShapeIndex()
		idx.Add(s2.LaxLoopFromPoints(append([]s2.Point(nil), sp.Vs...)))
		idx.Build()
		it := idx.Iterator()
		for _, v := range sp.Vs {
			if it.LocatePoint(v) && it.CellID().Point() == v {
				vertexCells = append(vertexCells, it.CellID())
			}
		}
		c.Count("loop.vertices_at_index_cell_centre", int64(len(vertexCells)))
	}
	vs := sp.Vs
	reversed := r.Intn(4) == 0
	if reversed {
		vs = gen.Reversed(vs)
	}
	n := len(vs)
	model := ref.NewLoopModel(gen.Vs(vs), origin, refDir)
	ps, isB := probesFor(r, sp, 40+n/8, 16)
	for _, id := range vertexCells { // probes inside the index cells whose centre is a loop vertex
		cell := s2.CellFromCellID(id)
		for k := 0; k < 4; k++ {
			ps = append(ps, cell.Vertex(k), gen.Near(r, cell.Center(), r.Float64()*0.3*cell.Vertex(0).Distance(cell.Vertex(2)).Radians()))
			isB = append(isB, true, true)
		}
	}
	want := make([]bool, len(ps))
	for i, p := range ps {
		want[i] = model.Contains(gen.V(p))
	}
	// sanity of the construction itself (oracle law): the centre of a non-reversed star loop is inside
	if model.Contains(gen.V(sp.Center)) == reversed {
		c.M.Broken(fmt.Sprintf("reference model: centre of a %s loop (reversed=%v) on the wrong side", sp.Kind, reversed))
	}
	det := func(i int, path string, got bool) any {
		return map[string]any{"kind": sp.Kind, "reversed": reversed, "n": n, "path": path, "probe": gen.Hex(ps[i]), "got": got, "reference": want[i], "reference_crossings": model.Crossings(gen.V(ps[i])), "vertices_head": gen.HexAll(vs[:min(n, 6)]...)}
	}
	if c.I < 2 {
		c.Sample(map[string]any{"kind": sp.Kind, "reversed": reversed, "n": n, "center": gen.Hex(sp.Center), "rmax": sp.RMax, "probes": len(ps)})
	}
	report := func(i int, path string, got bool) {
		if got != want[i] {
			kind := "interior-probe"
			if isB[i] {
				kind = "boundary-probe"
			}
			c.Violation("Loop/"+path+"/"+kind+"/wrong-answer", fmt.Sprintf("%s says contained=%v, exact crossing parity says %v (%d-vertex %s loop)", path, got, want[i], n, sp.Kind), det(i, path, got))
		}
	}
	loop := s2.LoopFromPoints(append([]s2.Point(nil), vs...))
	big := n > 32
	for pass := 0; pass < 2; pass++ { // pass 0: index not built yet when the first call arrives; pass 1: index fresh
		for i, p := range ps {
			report(i, []string{"Loop.ContainsPoint(first-pass)", "Loop.ContainsPoint(index-fresh)"}[pass], loop.ContainsPoint(p))
			if isB[i] && pass == 0 {
				c.Distinct(append(gen.Bits(p, vs[0], vs[n/2]), uint64(n))...)
			}
		}
	}
	if big {
		c.Count("loop.index_path_probes", int64(len(ps)))
	} else {
		c.Count("loop.brute_path_probes", int64(len(ps)))
	}
	for i, p := range ps {
		report(i, "Loop.bruteForceContainsPoint", loop.VerifBruteForceContainsPoint(p))
	}
	// loop + inverse partition the sphere; inverting twice is the identity
	inv := s2.LoopFromPoints(append([]s2.Point(nil), vs...))
	inv.Invert()
	rev := s2.LoopFromPoints(gen.Reversed(vs))
	for i, p := range ps {
		a := inv.ContainsPoint(p)
		if a == want[i] {
			c.Violation("Loop/Invert/partition/wrong-answer", fmt.Sprintf("loop and its inverse contain the probe %d time(s) instead of exactly once", map[bool]int{true: 2, false: 0}[a]), det(i, "Invert", a))
		}
		if b := rev.ContainsPoint(p); b == want[i] {
			c.Violation("Loop/reversed-vertices/partition/wrong-answer", "loop and the loop with reversed vertex order do not partition the sphere at the probe", det(i, "reversed", b))
		}
	}
	inv.Invert()
	for i, p := range ps {
		report(i, "Loop.ContainsPoint(after-Invert-twice)", inv.ContainsPoint(p))
	}
	// single-loop polygon
	poly := s2.PolygonFromOrientedLoops([]*s2.Loop{s2.LoopFromPoints(append([]s2.Point(nil), vs...))})
	for i, p := range ps {
		report(i, "Polygon.ContainsPoint(single-loop)", poly.ContainsPoint(p))
	}
	// containment query objects over fresh indexes holding the same vertices as other shape types
	lax := s2.LaxLoopFromPoints(append([]s2.Point(nil), vs...))
	laxPoly := s2.LaxPolygonFromPoints([][]s2.Point{append([]s2.Point(nil), vs...)})
	for si, sh := range []s2.Shape{lax, laxPoly, s2.LoopFromPoints(append([]s2.Point(nil), vs...))} {
		name := []string{"LaxLoop", "LaxPolygon", "Loop-as-shape"}[si]
		idx := s2.NewShapeIndex()
		idx.Add(sh)
		q := s2.NewContainsPointQuery(idx, s2.VertexModelSemiOpen)
		for i, p := range ps {
			report(i, "ContainsPointQuery.Contains("+name+")", q.Contains(p))
			report(i, "ContainsPointQuery.ShapeContains("+name+")", q.ShapeContains(sh, p))
			if si == 0 {
				report(i, "containsBruteForce("+name+")", s2.VerifContainsBruteForce(sh, p))
				cs := q.ContainingShapes(p)
				if (len(cs) == 1) != want[i] || len(cs) > 1 {
					c.Violation("ContainsPointQuery/ContainingShapes/wrong-answer", fmt.Sprintf("ContainingShapes returned %d shapes, parity says contained=%v", len(cs), want[i]), det(i, "ContainingShapes", len(cs) == 1))
				}
			}
		}
		// invariant hook: containsCenter of every index cell
		if si == 0 {
			for _, id := range idx.VerifCells() {
				for _, cl := range idx.VerifCell(id) {
					ctr := id.Point()
					w := model.Contains(gen.V(ctr))
					c.Count("hook.contains_center_checked", 1)
					if cl.ContainsCenter != w {
						c.Violation("ShapeIndex/containsCenter/wrong-answer", fmt.Sprintf("index cell %s records containsCenter=%v, exact parity of its centre is %v", id.ToToken(), cl.ContainsCenter, w),
							map[string]any{"kind": sp.Kind, "n": n, "cell": id.ToToken(), "center": gen.Hex(ctr), "vertices_head": gen.HexAll(vs[:min(n, 6)]...)})
					}
				}
			}
		}
	}
	// the same loop in an index that was built before the loop was added ("after the index exists"): a small
	// far-away shape is added and queried first, on another side of the sphere so that its cells sort on
	// either side of the loop's
	{
		idx := s2.NewShapeIndex()
		far := gen.StarLoop(r, gen.Near(r, s2.Point{Vector: sp.Center.Mul(-1)}, 0.3*r.Float64()), 3+r.Intn(5), 0.01, 0.02)
		idx.Add(s2.LaxLoopFromPoints(far.Vs))
		q0 := s2.NewContainsPointQuery(idx, s2.VertexModelSemiOpen)
		_ = q0.Contains(ps[0])
		sh := s2.LaxLoopFromPoints(append([]s2.Point(nil), vs...))
		idx.Add(sh)
		q := s2.NewContainsPointQuery(idx, s2.VertexModelSemiOpen)
		for i, p := range ps {
			report(i, "ContainsPointQuery.ShapeContains(LaxLoop-added-to-built-index)", q.ShapeContains(sh, p))
		}
		c.Count("loop.added_to_built_index", 1)
	}
	// the probes at cell centres of the built index (where the query segment degenerates)
	if big {
		idx := s2.NewShapeIndex()
		idx.Add(lax)
		q := s2.NewContainsPointQuery(idx, s2.VertexModelSemiOpen)
		cells := idx.VerifCells()
		for k := 0; k < 12 && len(cells) > 0; k++ {
			id := cells[r.Intn(len(cells))]
			var p s2.Point
			switch k % 3 {
			case 0:
				p = id.Point()
			case 1:
				p = id.RangeMin().Point()
			default:
				p = id.RangeMax().Point()
			}
			w := model.Contains(gen.V(p))
			for path, got := range map[string]bool{"ContainsPointQuery.Contains(index-cell-corner/centre)": q.Contains(p), "Loop.ContainsPoint(index-cell-corner/centre)": loop.ContainsPoint(p), "Polygon.ContainsPoint(index-cell-corner/centre)": poly.ContainsPoint(p)} {
				if got != w {
					c.Violation("Loop/"+path+"/wrong-answer", fmt.Sprintf("%s says %v, exact parity says %v", path, got, w), map[string]any{"kind": sp.Kind, "n": n, "probe": gen.Hex(p), "cell": id.ToToken(), "vertices_head": gen.HexAll(vs[:min(n, 6)]...)})
				}
			}
			c.Count("loop.index_cell_probes", 1)
		}
	}
}

func min(a, b int) int {
	if a < b {
		return a
	}
	return b
}

// polygonCase: concentric rings around a few centres; the polygon contains a
// point iff an odd number of rings enclose it.
func polygonCase(c *mon.Case) {
	r := c.R
	nGroups := 1 + r.Intn(3)
	var loops [][]s2.Point
	var models []*ref.LoopModel
	var all []s2.Point
	var centers []s2.Point
	totalV := 0
	var sps []gen.LoopSpec
	for g := 0; g < nGroups; g++ {
		var ctr s2.Point
		// groups far apart: pick centres until 1.2 rad from the others (each group has radius <= 0.5)
		for tries := 0; ; tries++ {
			ctr = gen.RandCenter(r)
			ok := true
			for _, o := range centers {
				if ctr.Distance(o).Radians() < 1.2 {
					ok = false
				}
			}
			if ok || tries > 50 {
				if !ok {
					ctr = s2.Point{}
				}
				break
			}
		}
		if ctr == (s2.Point{}) {
			break
		}
		centers = append(centers, ctr)
		depth := 1 + r.Intn(4)
		rad := gen.LogUniform(r, 1e-6, 0.5)
		if r.Intn(5) == 0 { // many small loops side by side: more than 12 loops of differing sizes in one polygon
			k := 13 + r.Intn(18)
			x, y, z := gen.Frame(ctr)
			ir := rad * math.Sin(math.Pi/float64(k)) * 0.7
			for j := 0; j < k; j++ {
				n := 3 + r.Intn(12)
				sp := gen.StarLoop(r, gen.AtPolar(x, y, z, rad, 2*math.Pi*float64(j)/float64(k)), n, ir*0.6, ir)
				sps = append(sps, sp)
				loops = append(loops, sp.Vs)
				models = append(models, ref.NewLoopModel(gen.Vs(sp.Vs), origin, refDir))
				all = append(all, sp.Vs...)
				totalV += n
			}
			c.Count("polygon.many_loops", 1)
			continue
		}
		for d := 0; d < depth; d++ {
			n := 3 + r.Intn(30)
			if r.Intn(4) == 0 {
				n = 30 + r.Intn(80)
			}
			sp := gen.StarLoop(r, ctr, n, rad*0.85, rad)
			sps = append(sps, sp)
			loops = append(loops, sp.Vs)
			models = append(models, ref.NewLoopModel(gen.Vs(sp.Vs), origin, refDir))
			all = append(all, sp.Vs...)
			totalV += n
			rad = sp.RMin * 0.8 // next ring strictly inside
			if rad < 1e-9 {
				break
			}
		}
	}
	if len(loops) == 0 {
		return
	}
	order := r.Perm(len(loops))
	var ll []*s2.Loop
	for _, k := range order {
		ll = append(ll, s2.LoopFromPoints(append([]s2.Point(nil), loops[k]...)))
	}
	poly := s2.PolygonFromLoops(ll)
	var ps []s2.Point
	for _, sp := range sps {
		b := gen.BoundaryProbes(r, sp.Vs, 12)
		ps = append(ps, b...)
		ps = append(ps, sp.Center, gen.Near(r, sp.Center, r.Float64()*1.5*sp.RMax), gen.Near(r, sp.Center, sp.RMax*0.9), gen.Near(r, sp.Center, sp.RMin*0.9))
	}
	ps = append(ps, gen.CellProbes(r, all, 10)...)
	ps = append(ps, s2.OriginPoint(), s2.PointFromCoords(0, 0, 1), gen.Uniform(r))
	want := make([]bool, len(ps))
	for i, p := range ps {
		k := 0
		for _, m := range models {
			if m.Contains(gen.V(p)) {
				k++
			}
		}
		want[i] = k%2 == 1
	}
	if c.I < 2 {
		c.Sample(map[string]any{"groups": len(centers), "loops": len(loops), "total_vertices": totalV, "loop_order": order})
	}
	det := func(i int, got bool) any {
		return map[string]any{"loops": len(loops), "total_vertices": totalV, "order": order, "probe": gen.Hex(ps[i]), "got": got, "reference": want[i], "first_loop_head": gen.HexAll(loops[0][:3]...)}
	}
	lp := s2.LaxPolygonFromPolygon(poly)
	idx := s2.NewShapeIndex()
	idx.Add(lp)
	q := s2.NewContainsPointQuery(idx, s2.VertexModelSemiOpen)
	comp := s2.PolygonFromLoops(func() []*s2.Loop {
		var x []*s2.Loop
		for _, k := range order {
			x = append(x, s2.LoopFromPoints(append([]s2.Point(nil), loops[k]...)))
		}
		return x
	}())
	comp.Invert()
	for i, p := range ps {
		c.Count("polygon.probes", 1)
		c.Distinct(append(gen.Bits(p), uint64(c.I))...)
		if got := poly.ContainsPoint(p); got != want[i] {
			c.Violation("Polygon/ContainsPoint/wrong-answer", fmt.Sprintf("Polygon.ContainsPoint=%v, %d rings enclose the probe so parity says %v (%d loops, %d vertices)", got, 0, want[i], len(loops), totalV), det(i, got))
		}
		if got := q.Contains(p); got != want[i] {
			c.Violation("Polygon/ContainsPointQuery(LaxPolygon)/wrong-answer", fmt.Sprintf("ContainsPointQuery over the LaxPolygon says %v, parity says %v", got, want[i]), det(i, got))
		}
		if got := s2.VerifContainsBruteForce(poly, p); got != want[i] {
			c.Violation("Polygon/containsBruteForce/wrong-answer", fmt.Sprintf("containsBruteForce(polygon)=%v, parity says %v", got, want[i]), det(i, got))
		}
		if got := comp.ContainsPoint(p); got == want[i] {
			c.Violation("Polygon/Invert/partition/wrong-answer", "polygon and its complement do not contain the probe exactly once", det(i, got))
		}
	}
	// nesting: each ring is a hole iff an odd number of other rings enclose it
	for k := 0; k < poly.NumLoops(); k++ {
		l := poly.Loop(k)
		v := l.Vertex(0)
		// find which ring this is: the ring having v as a vertex
		enc := 0
		self := -1
		for j, lv := range loops {
			for _, x := range lv {
				if x == v {
					self = j
				}
			}
		}
		if self < 0 {
			c.Violation("Polygon/loops-lost/wrong-answer", "a polygon loop has a vertex that is not one of the input vertices", nil)
			continue
		}
		for j, m := range models {
			if j != self && m.Contains(gen.V(v)) {
				enc++
			}
		}
		if l.IsHole() != (enc%2 == 1) {
			c.Violation("Polygon/IsHole/wrong-answer", fmt.Sprintf("loop %d: IsHole=%v but %d other loops enclose it", k, l.IsHole(), enc), map[string]any{"loops": len(loops), "order": order, "vertex": gen.Hex(v)})
		}
	}
	// the same (already queried, indexed) polygon inverted in place, and inverted back: every answer follows
	if c.I%2 == 0 {
		for round, flip := range []bool{true, false} {
			poly.Invert()
			for i, p := range ps {
				if got := poly.ContainsPoint(p); got != (want[i] != flip) {
					c.Violation("Polygon/Invert-in-place-after-queries/ContainsPoint/wrong-answer", fmt.Sprintf("after %d in-place Invert() of a polygon that had answered queries, ContainsPoint=%v, parity says %v", round+1, got, want[i] != flip), det(i, got))
					break
				}
			}
		}
		c.Count("polygon.inverted_in_place_after_queries", 1)
	}
	_ = math.Pi
}

// localTilingCase: a cell of any level 1..30 (one in two next to a face edge or cube corner) together with
// all its neighbours of that level tiles a neighbourhood of the cell: every point of the closed cell - its
// vertices, points of its edges, its centre - is contained by exactly one of these cell loops. Across a face
// edge this needs the two faces to compute bit-identical corner points.
func localTilingCase(c *mon.Case) {
	r := c.R
	lvl := 1 + r.Intn(30)
	var id s2.CellID
	if r.Intn(2) == 0 {
		id = s2.CellFromPoint(gen.OnPlane(r, 3+r.Intn(6))).ID().Parent(lvl)
	} else {
		id = gen.RandCellID(r, lvl)
	}
	ids := append([]s2.CellID{id}, id.AllNeighbors(lvl)...)
	seen := map[s2.CellID]bool{}
	var loops []*s2.Loop
	var toks []string
	faces := map[int]bool{}
	for _, x := range ids {
		if seen[x] {
			continue
		}
		seen[x] = true
		loops = append(loops, s2.LoopFromCell(s2.CellFromCellID(x)))
		toks = append(toks, x.ToToken())
		faces[x.Face()] = true
	}
	if len(faces) > 1 {
		c.Count("tiling.local.across_faces", 1)
	}
	cell := s2.CellFromCellID(id)
	var ps []s2.Point
	for k := 0; k < 4; k++ {
		a, b := cell.Vertex(k), cell.Vertex((k+1)%4)
		t := r.Float64()
		ps = append(ps, a, s2.Point{Vector: a.Mul(1 - t).Add(b.Mul(t)).Normalize()})
	}
	ps = append(ps, cell.Center())
	for _, p := range ps {
		cnt := 0
		var who []string
		for i, l := range loops {
			if l.ContainsPoint(p) {
				cnt++
				who = append(who, toks[i])
			}
		}
		c.Count("tiling.local.probes", 1)
		c.Distinct(append(gen.Bits(p), uint64(lvl))...)
		if cnt != 1 {
			c.Violation("tiling/cell-and-its-neighbours/not-exactly-once/wrong-answer", fmt.Sprintf("a point of the closed cell %s is contained by %d of the loops of the cell and its %d neighbours of level %d", id.ToToken(), cnt, len(loops)-1, lvl), map[string]any{"level": lvl, "cell": id.ToToken(), "probe": gen.Hex(p), "containing": who, "faces": len(faces)})
			break
		}
	}
}

// tilingCase: all cells of one level (as loops); every probe is in exactly one.
func tilingCase(c *mon.Case, maxLevel int) {
	r := c.R
	lvl := r.Intn(maxLevel + 1)
	var ids []s2.CellID
	for f := 0; f < 6; f++ {
		for id := s2.CellIDFromFace(f).ChildBeginAtLevel(lvl); id != s2.CellIDFromFace(f).ChildEndAtLevel(lvl); id = id.Next() {
			ids = append(ids, id)
		}
	}
	loops := make([]*s2.Loop, len(ids))
	idx := s2.NewShapeIndex()
	for i, id := range ids {
		loops[i] = s2.LoopFromCell(s2.CellFromCellID(id))
		idx.Add(loops[i])
	}
	q := s2.NewContainsPointQuery(idx, s2.VertexModelSemiOpen)
	if c.I < 2 {
		c.Sample(map[string]any{"level": lvl, "loops": len(ids)})
	}
	for k := 0; k < 40; k++ {
		var p s2.Point
		cell := s2.CellFromCellID(gen.RandCellID(r, lvl+r.Intn(4)))
		switch r.Intn(6) {
		case 0:
			p = cell.Vertex(r.Intn(4)) // shared by 3 or 4 tiles (or interior to one)
		case 1:
			p = gen.NudgeUlps(r, cell.Vertex(r.Intn(4)), 1+r.Intn(3))
		case 2:
			j := r.Intn(4)
			t := r.Float64()
			p = s2.Point{Vector: cell.Vertex(j).Mul(1 - t).Add(cell.Vertex((j + 1) % 4).Mul(t)).Normalize()}
		case 3:
			p = cell.Center()
		case 4:
			p = gen.Special(r)
		default:
			p = gen.Uniform(r)
		}
		cnt := 0
		var who []string
		for i, l := range loops {
			if l.ContainsPoint(p) {
				cnt++
				who = append(who, ids[i].ToToken())
			}
		}
		c.Count("tiling.probes", 1)
		c.Distinct(append(gen.Bits(p), uint64(lvl))...)
		if cnt != 1 {
			c.Violation("tiling/cells-of-one-level/not-exactly-once/wrong-answer", fmt.Sprintf("probe is contained by %d of the %d level-%d cell loops", cnt, len(ids), lvl), map[string]any{"level": lvl, "probe": gen.Hex(p), "containing": who})
		}
		if n := len(q.ContainingShapes(p)); n != 1 {
			c.Violation("tiling/index-of-cell-loops/not-exactly-once/wrong-answer", fmt.Sprintf("ContainsPointQuery finds %d containing shapes among the %d level-%d cell loops", n, len(ids), lvl), map[string]any{"level": lvl, "probe": gen.Hex(p)})
		}
	}
}
