// Package c06 monitors C06: spatial-index queries return exactly what brute
// force over all edges returns, and every shape exposes one edge set.
package c06

import (
	"fmt"
	"math"
	"sort"

	"github.com/golang/geo/s2"

	"verif/internal/gen"
	"verif/internal/mon"
	"verif/internal/ref"
)

func refDir(v ref.V) ref.V { return gen.V(s2.Ortho(gen.P(v))) }

var origin = gen.V(s2.OriginPoint())

func Run(m *mon.M) {
	m.Rule = "shape collections of 1..8 shapes of every Shape type (Loop, Polygon with holes, Polyline, LaxLoop, LaxPolygon, LaxPolyline, PointVector), overlapping, 0..1500 edges quick (..10^4 thorough), placed at poles/antimeridian/cube corners, with degenerate edges; queries at shape vertices, on edges, at index-cell centres/corners and with query edges inside one cell, across faces and sharing endpoints. A query is non-trivial and distinct when its bits are new AND it is answered through an index holding more than one cell or more than one shape"
	m.Assumptions = []string{"brute force = the monitor's own scan over every edge of every shape with the exact reference predicates of C02/C03", "containment of constructed ring polygons = parity of enclosing rings (C04's model)"}
	m.Require("contract.Shapes", 2000)
	m.Require("index.cells_checked", 5000)
	m.Require("index.edge_samples", 20000)
	m.Require("cpq.queries", 20000)
	m.Require("ceq.queries", 5000)
	m.Require("ceq.single_cell_multi_shape", 200)
	m.Require("locate.queries", 5000)
	m.Require("cellrel.multi_loop_cells", 5000)
	m.Require("collection.vertices_at_index_cell_centre", 100)
	m.Require("collection.many_loop_shapes", 100)
	maxE := m.N(1500, 10000)
	m.Stream("collection", m.N(2500, 100000), func(c *mon.Case) { collection(c, maxE) })
	m.Stream("cellrel", m.N(3000, 100000), cellRelations)
}

// contract: chains tile [0,NumEdges), ChainEdge == Edge, ChainPosition inverts.
func contract(c *mon.Case, o *gen.Obj) {
	s := o.Shape
	ne := s.NumEdges()
	det := func(extra string) any {
		return map[string]any{"type": o.Kind, "num_edges": ne, "num_chains": s.NumChains(), "what": extra}
	}
	c.Count("contract.Shapes", 1)
	next := 0
	for ci := 0; ci < s.NumChains(); ci++ {
		ch := s.Chain(ci)
		if ch.Start != next || ch.Length < 0 {
			c.Violation("Shape/"+o.Kind+"/chains-do-not-tile/wrong-answer", fmt.Sprintf("chain %d starts at %d (expected %d), length %d", ci, ch.Start, next, ch.Length), det("Chain"))
			return
		}
		for off := 0; off < ch.Length; off++ {
			e := s.Edge(ch.Start + off)
			func() {
				defer func() {
					if r := recover(); r != nil {
						c.Violation("Shape/"+o.Kind+"/ChainEdge/panic", fmt.Sprintf("ChainEdge(%d,%d) panics: %v", ci, off, r), det("ChainEdge"))
					}
				}()
				if ce := s.ChainEdge(ci, off); ce != e {
					c.Violation("Shape/"+o.Kind+"/ChainEdge-differs-from-Edge/wrong-answer", fmt.Sprintf("ChainEdge(%d,%d) != Edge(%d)", ci, off, ch.Start+off), det("ChainEdge"))
				}
			}()
			func() {
				defer func() {
					if r := recover(); r != nil {
						c.Violation("Shape/"+o.Kind+"/ChainPosition/panic", fmt.Sprintf("ChainPosition(%d) panics: %v", ch.Start+off, r), det("ChainPosition"))
					}
				}()
				if cp := s.ChainPosition(ch.Start + off); cp.ChainID != ci || cp.Offset != off {
					c.Violation("Shape/"+o.Kind+"/ChainPosition-not-inverse/wrong-answer", fmt.Sprintf("ChainPosition(%d) = (%d,%d), expected (%d,%d)", ch.Start+off, cp.ChainID, cp.Offset, ci, off), det("ChainPosition"))
				}
			}()
		}
		next += ch.Length
	}
	if next != ne {
		c.Violation("Shape/"+o.Kind+"/chains-do-not-tile/wrong-answer", fmt.Sprintf("chains cover %d edges, NumEdges is %d", next, ne), det("Chain"))
	}
	if s.Dimension() != o.Dim {
		c.Violation("Shape/"+o.Kind+"/Dimension/wrong-answer", "unexpected dimension", det("Dimension"))
	}
}

type cellList []s2.CellID

// find returns the index cell whose leaf range contains leaf, or false.
func (cl cellList) find(leaf s2.CellID) (s2.CellID, bool) {
	i := sort.Search(len(cl), func(i int) bool { return cl[i].RangeMax() >= leaf })
	if i < len(cl) && cl[i].RangeMin() <= leaf {
		return cl[i], true
	}
	return 0, false
}

func collection(c *mon.Case, maxE int) {
	r := c.R
	ctr := gen.RandCenter(r)
	scale := gen.LogUniform(r, 1e-6, 1.0)
	if r.Intn(2) == 0 {
		scale = 0.01 + r.Float64()
	}
	nObj := 1 + r.Intn(8)
	var objs []*gen.Obj
	idx := s2.NewShapeIndex()
	total := 0
	var centreCells []s2.CellID
	// one collection in five is what is left after removing other shapes: one or two extra shapes are added
	// first (so the surviving shapes have ids above the number of shapes) and removed again before or after a
	// build of the index
	off := 0
	var extras []s2.Shape
	removeAfterBuild := false
	if r.Intn(5) == 0 {
		for k := 0; k < 1+r.Intn(2); k++ {
			e := gen.MakeObj(r, gen.Near(r, ctr, scale), scale*(0.2+r.Float64()), 40).Shape
			if r.Intn(3) == 0 { // a shape without edges but with an interior: recorded in every cell, on all six faces
				e = s2.FullPolygon()
				c.Count("collection.full_shape_removed", 1)
			}
			idx.Add(e)
			extras = append(extras, e)
			off++
		}
		removeAfterBuild = r.Intn(2) == 0
		c.Count("collection.after_removal", 1)
	}
	switch r.Intn(8) {
	case 0: // one areal shape with vertices exactly at the centres of its index cells
		sp, cells := gen.VerticesAtIndexCellCentres(r, gen.RandLoopSpec(r, 80))
		o := gen.ArealObj(r, [][]s2.Point{sp.Vs})
		objs, nObj, ctr, scale, centreCells = append(objs, o), 0, sp.Center, sp.RMax, cells
		idx.Add(o.Shape)
		total += o.Shape.NumEdges()
		contract(c, o)
		c.Count("collection.vertices_at_index_cell_centre", int64(len(cells)))
	case 1: // a polygon of 13..40 loops (the chain lookups switch algorithm above 12 loops)
		o := gen.ArealObj(r, gen.Islands(r, ctr, math.Min(scale, 1.0), 13+r.Intn(28)))
		objs = append(objs, o)
		idx.Add(o.Shape)
		total += o.Shape.NumEdges()
		contract(c, o)
		c.Count("collection.many_loop_shapes", 1)
		nObj = r.Intn(3)
	}
	for i := 0; i < nObj && total < maxE; i++ {
		at := ctr
		if r.Intn(2) == 0 {
			at = gen.Near(r, ctr, scale*2*r.Float64())
		}
		o := gen.MakeObj(r, at, scale*(0.2+r.Float64()), maxE)
		objs = append(objs, o)
		idx.Add(o.Shape)
		total += o.Shape.NumEdges()
		contract(c, o)
	}
	// accessor contract of a LaxPolygon with zero-vertex loops between the others, and single-vertex loops
	// (not indexed: a zero-vertex loop of a LaxPolygon is the full loop)
	if c.I%4 == 0 {
		var ls [][]s2.Point
		for k := 2 + r.Intn(6); k > 0; k-- {
			switch r.Intn(4) {
			case 0:
				ls = append(ls, []s2.Point{})
			case 1:
				ls = append(ls, []s2.Point{gen.Near(r, ctr, scale)})
			default:
				ls = append(ls, gen.StarLoop(r, gen.Near(r, ctr, scale), 3+r.Intn(6), scale*0.05, scale*0.1).Vs)
			}
		}
		contract(c, &gen.Obj{Shape: s2.LaxPolygonFromPoints(ls), Kind: "LaxPolygon(zero-and-one-vertex-loops)", Dim: 2})
		// the same in a random access order (each lookup independent of the previous one)
		lp := s2.LaxPolygonFromPoints(ls)
		for k := 0; k < 20 && lp.NumEdges() > 0; k++ {
			e := r.Intn(lp.NumEdges())
			cp := lp.ChainPosition(e)
			if cp.ChainID < 0 || cp.ChainID >= lp.NumChains() || cp.Offset < 0 || cp.Offset >= lp.Chain(cp.ChainID).Length || lp.Chain(cp.ChainID).Start+cp.Offset != e {
				c.Violation("Shape/LaxPolygon(zero-and-one-vertex-loops)/ChainPosition-not-inverse/wrong-answer", fmt.Sprintf("ChainPosition(%d) = (%d,%d) does not name edge %d", e, cp.ChainID, cp.Offset, e), nil)
				break
			}
		}
	}
	kinds := ""
	for _, o := range objs {
		kinds += o.Kind + " "
	}
	if c.I < 3 {
		c.Sample(map[string]any{"shapes": kinds, "edges": total, "center": gen.Hex(ctr), "scale": scale})
	}
	if removeAfterBuild {
		idx.Build()
	}
	for _, e := range extras {
		idx.Remove(e)
	}
	// In every second case the first thing to touch the index with its pending updates is an iterator created
	// at the end position (instead of Build): it has to see the built index like any other iterator.
	var endIt *s2.ShapeIndexIterator
	if c.I%2 == 0 {
		endIt = s2.NewShapeIndexIterator(idx, s2.IteratorEnd)
	}
	idx.Build()
	cells := cellList(idx.VerifCells())
	multi := len(cells) > 1 || len(objs) > 1
	baseDet := func() map[string]any {
		return map[string]any{"shapes": kinds, "edges": total, "cells": len(cells), "center": gen.Hex(ctr), "scale": scale}
	}
	// ---- structural invariants of the built index (hook) ----
	for i, id := range cells {
		c.Count("index.cells_checked", 1)
		if !id.IsValid() {
			c.Violation("ShapeIndex/structure/invalid-cell/wrong-answer", "index holds an invalid cell id", baseDet())
		}
		if i > 0 && !(cells[i-1].RangeMax() < id.RangeMin()) {
			c.Violation("ShapeIndex/structure/cells-not-sorted-disjoint/wrong-answer", fmt.Sprintf("cells %s and %s overlap or are out of order", cells[i-1].ToToken(), id.ToToken()), baseDet())
		}
		prevShape := int32(-1)
		for _, cl := range idx.VerifCell(id) {
			if cl.ShapeID <= prevShape {
				c.Violation("ShapeIndex/structure/clipped-shapes-not-sorted/wrong-answer", "clipped shapes of a cell are not in increasing shape id order", baseDet())
			}
			prevShape = cl.ShapeID
			for k := 1; k < len(cl.Edges); k++ {
				if cl.Edges[k] <= cl.Edges[k-1] {
					c.Violation("ShapeIndex/structure/edges-not-sorted-unique/wrong-answer", fmt.Sprintf("cell %s shape %d: edge ids %v not strictly increasing", id.ToToken(), cl.ShapeID, cl.Edges), baseDet())
					break
				}
			}
			if k := int(cl.ShapeID) - off; k < 0 || k >= len(objs) {
				c.Violation("ShapeIndex/structure/unknown-shape-id/wrong-answer", fmt.Sprintf("cell %s lists shape id %d, which no shape of the index has", id.ToToken(), cl.ShapeID), baseDet())
			} else if objs[k].Dim == 2 {
				if w := objs[k].ContainsInterior(id.Point()); w != cl.ContainsCenter {
					d := baseDet()
					d["cell"], d["shape_id"] = id.ToToken(), cl.ShapeID
					c.Violation("ShapeIndex/containsCenter/wrong-answer", fmt.Sprintf("cell %s shape %d containsCenter=%v, ring parity of the centre says %v", id.ToToken(), cl.ShapeID, cl.ContainsCenter, w), d)
				}
			} else if cl.ContainsCenter {
				c.Violation("ShapeIndex/containsCenter/dimension<2/wrong-answer", "containsCenter set for a shape without interior", baseDet())
			}
		}
	}
	// every point of every edge lies in an index cell that lists the edge
	for si, o := range objs {
		ne := o.Shape.NumEdges()
		stepE := 1
		if ne > 200 {
			stepE = ne / 200
		}
		for e := 0; e < ne; e += stepE {
			ed := o.Shape.Edge(e)
			for k := 0; k < 5; k++ {
				var p s2.Point
				switch k {
				case 0:
					p = ed.V0
				case 1:
					p = ed.V1
				default:
					if ed.V0 == ed.V1 || ref.Antipodal(gen.V(ed.V0), gen.V(ed.V1)) {
						continue
					}
					p = gen.OnGreatCircle(r, ed.V0, ed.V1, r.Float64(), 0)
				}
				c.Count("index.edge_samples", 1)
				leaf := s2.CellFromPoint(p).ID()
				id, ok := cells.find(leaf)
				listed := false
				if ok {
					for _, cl := range idx.VerifCell(id) {
						if int(cl.ShapeID)-off == si {
							j := sort.SearchInts(cl.Edges, e)
							listed = j < len(cl.Edges) && cl.Edges[j] == e
						}
					}
				}
				if !ok || !listed {
					d := baseDet()
					d["shape_id"], d["edge"], d["point_on_edge"], d["v0"], d["v1"] = si, e, gen.Hex(p), gen.Hex(ed.V0), gen.Hex(ed.V1)
					if ok {
						d["cell"] = id.ToToken()
					}
					c.Violation("ShapeIndex/structure/edge-point-not-covered/wrong-answer", fmt.Sprintf("a point of edge %d of shape %d (%s) lies in no index cell listing that edge (index cell found: %v)", e, si, o.Kind, ok), d)
				}
			}
		}
	}

	// ---- query points ----
	var ps []s2.Point
	for _, o := range objs {
		for k := 0; k < 6 && len(o.Vertices) > 0; k++ {
			ps = append(ps, o.Vertices[r.Intn(len(o.Vertices))])
		}
		if len(o.Vertices) >= 2 {
			ps = append(ps, gen.BoundaryProbes(r, o.Vertices, 6)...)
		}
	}
	for k := 0; k < 8 && len(cells) > 0; k++ {
		id := cells[r.Intn(len(cells))]
		ps = append(ps, id.Point(), id.RangeMin().Point(), id.RangeMax().Point(), s2.CellFromCellID(id).Vertex(r.Intn(4)))
	}
	for k := 0; k < 8; k++ {
		ps = append(ps, gen.Near(r, ctr, scale*3*r.Float64()))
	}
	ps = append(ps, gen.Uniform(r), s2.OriginPoint())
	for _, id := range centreCells { // points inside the index cells whose centre is a vertex
		cell := s2.CellFromCellID(id)
		for k := 0; k < 4; k++ {
			ps = append(ps, cell.Vertex(k), gen.Near(r, cell.Center(), r.Float64()*0.3*cell.Vertex(0).Distance(cell.Vertex(2)).Radians()))
		}
	}

	// ---- iterator traversal: forwards and backwards over exactly the hooked cell list ----
	{
		tr := idx.Iterator()
		k := 0
		for tr.Begin(); !tr.Done(); tr.Next() {
			if k >= len(cells) || tr.CellID() != cells[k] || tr.IndexCell() == nil || tr.Center() != cells[k].Point() {
				c.Violation("ShapeIndexIterator/forward-traversal/wrong-answer", fmt.Sprintf("forward traversal position %d does not match the index's cell list", k), baseDet())
				break
			}
			k++
		}
		if k != len(cells) && tr.Done() {
			c.Violation("ShapeIndexIterator/forward-traversal/wrong-answer", fmt.Sprintf("forward traversal visited %d cells, the index holds %d", k, len(cells)), baseDet())
		}
		tr.End()
		k = len(cells)
		for tr.Prev() {
			k--
			if k < 0 || tr.CellID() != cells[k] {
				c.Violation("ShapeIndexIterator/backward-traversal/wrong-answer", "backward traversal does not match the index's cell list", baseDet())
				break
			}
		}
		if k > 0 && len(cells) > 0 {
			c.Violation("ShapeIndexIterator/backward-traversal/wrong-answer", fmt.Sprintf("backward traversal stopped %d cells before the first", k), baseDet())
		}
		c.Count("iterator.traversals", 1)
		if endIt != nil {
			k = len(cells)
			if !endIt.Done() {
				c.Violation("ShapeIndexIterator/created-at-end-on-pending-index/wrong-answer", "an iterator created with IteratorEnd is not Done", baseDet())
			}
			for endIt.Prev() {
				k--
				if k < 0 || endIt.CellID() != cells[k] {
					c.Violation("ShapeIndexIterator/created-at-end-on-pending-index/wrong-answer", "backward traversal from an iterator created with IteratorEnd on an index with pending updates does not match the index's cell list", baseDet())
					break
				}
			}
			if k > 0 {
				c.Violation("ShapeIndexIterator/created-at-end-on-pending-index/wrong-answer", fmt.Sprintf("backward traversal from an iterator created with IteratorEnd on an index with pending updates visited %d of %d cells", len(cells)-k, len(cells)), baseDet())
			}
			c.Count("iterator.created_at_end_before_build", 1)
		}
	}

	// ---- iterator location ----
	it := idx.Iterator()
	for _, p := range ps {
		c.Count("locate.queries", 1)
		leaf := s2.CellFromPoint(p).ID()
		want, ok := cells.find(leaf)
		got := it.LocatePoint(p)
		if got != ok || (ok && it.CellID() != want) {
			d := baseDet()
			d["probe"] = gen.Hex(p)
			c.Violation("ShapeIndexIterator/LocatePoint/wrong-answer", fmt.Sprintf("LocatePoint=%v, the cell list says %v", got, ok), d)
		}
		// LocateCellID for the leaf's ancestors at a few levels
		target := leaf.Parent(r.Intn(31))
		rel := it.LocateCellID(target)
		var wantRel s2.CellRelation = s2.Disjoint
		if cid, ok := cells.find(target.RangeMin()); ok && cid.Contains(target) {
			wantRel = s2.Indexed
		} else {
			i := sort.Search(len(cells), func(i int) bool { return cells[i] >= target.RangeMin() })
			if i < len(cells) && cells[i] <= target.RangeMax() {
				wantRel = s2.Subdivided
			}
		}
		if rel != wantRel {
			d := baseDet()
			d["target"] = target.ToToken()
			c.Violation("ShapeIndexIterator/LocateCellID/wrong-answer", fmt.Sprintf("LocateCellID=%v, the cell list says %v", rel, wantRel), d)
		} else if rel == s2.Indexed && !it.CellID().Contains(target) {
			c.Violation("ShapeIndexIterator/LocateCellID/position/wrong-answer", "iterator not positioned at the containing cell", baseDet())
		}
	}

	// ---- ContainsPointQuery, three vertex models ----
	for _, vm := range []s2.VertexModel{s2.VertexModelOpen, s2.VertexModelSemiOpen, s2.VertexModelClosed} {
		q := s2.NewContainsPointQuery(idx, vm)
		name := []string{"Open", "SemiOpen", "Closed"}[vm]
		for _, p := range ps {
			c.Count("cpq.queries", 1)
			if multi {
				c.Distinct(append(gen.Bits(p), uint64(vm), uint64(c.I))...)
			}
			any := false
			var wantSet []int
			for si, o := range objs {
				w := o.Contains(p, vm)
				if w {
					any = true
					wantSet = append(wantSet, si)
				}
				if got := q.ShapeContains(o.Shape, p); got != w {
					d := baseDet()
					d["probe"], d["shape_id"], d["shape_type"], d["model"] = gen.Hex(p), si, o.Kind, name
					c.Violation("ContainsPointQuery/ShapeContains/"+name+"/wrong-answer", fmt.Sprintf("ShapeContains(%s #%d)=%v, brute force over all edges says %v (probe is vertex: %v)", o.Kind, si, got, w, o.IsVertex(p)), d)
				}
			}
			if got := q.Contains(p); got != any {
				d := baseDet()
				d["probe"], d["model"] = gen.Hex(p), name
				c.Violation("ContainsPointQuery/Contains/"+name+"/wrong-answer", fmt.Sprintf("Contains=%v, brute force says %v", got, any), d)
			}
			var gotSet []int
			for _, sh := range q.ContainingShapes(p) {
				for si, o := range objs {
					if o.Shape == sh {
						gotSet = append(gotSet, si)
					}
				}
			}
			sort.Ints(gotSet)
			if fmt.Sprint(gotSet) != fmt.Sprint(wantSet) {
				d := baseDet()
				d["probe"], d["model"] = gen.Hex(p), name
				c.Violation("ContainsPointQuery/ContainingShapes/"+name+"/wrong-answer", fmt.Sprintf("ContainingShapes=%v, brute force says %v", gotSet, wantSet), d)
			}
		}
	}

	// ---- CrossingEdgeQuery ----
	ceq := s2.NewCrossingEdgeQuery(idx)
	var allV []s2.Point
	for _, o := range objs {
		allV = append(allV, o.Vertices...)
	}
	nq := 12
	for k := 0; k < nq && len(allV) > 0; k++ {
		var a, b s2.Point
		switch r.Intn(6) {
		case 0: // shares endpoints with shape vertices
			a, b = allV[r.Intn(len(allV))], allV[r.Intn(len(allV))]
		case 1: // one shared endpoint
			a, b = allV[r.Intn(len(allV))], gen.Near(r, ctr, scale*2*r.Float64())
		case 2: // short edge inside one index cell
			if len(cells) == 0 {
				continue
			}
			cell := s2.CellFromCellID(cells[r.Intn(len(cells))])
			d := cell.Vertex(0).Distance(cell.Vertex(2)).Radians()
			a = gen.Near(r, cell.Center(), d*0.2*r.Float64())
			b = gen.Near(r, cell.Center(), d*0.2*r.Float64())
		case 3: // long edge across faces
			a, b = gen.Near(r, ctr, scale), gen.Uniform(r)
		default:
			a, b = gen.Near(r, ctr, scale*2*r.Float64()), gen.Near(r, ctr, scale*2*r.Float64())
		}
		if a == b || ref.Antipodal(gen.V(a), gen.V(b)) {
			continue
		}
		// is the query confined to one index cell?
		if ca, ok1 := cells.find(s2.CellFromPoint(a).ID()); ok1 && len(objs) > 1 {
			if cb, ok2 := cells.find(s2.CellFromPoint(b).ID()); ok2 && ca == cb {
				c.Count("ceq.single_cell_multi_shape", 1)
			}
		}
		for _, ct := range []s2.CrossingType{s2.CrossingTypeInterior, s2.CrossingTypeAll} {
			tname := map[s2.CrossingType]string{s2.CrossingTypeInterior: "Interior", s2.CrossingTypeAll: "All"}[ct]
			want := map[int][]int{}
			for si, o := range objs {
				for e := 0; e < o.Shape.NumEdges(); e++ {
					ed := o.Shape.Edge(e)
					sg := ref.CrossingSign(gen.V(a), gen.V(b), gen.V(ed.V0), gen.V(ed.V1))
					if sg == ref.Cross || (ct == s2.CrossingTypeAll && sg == ref.MaybeCross) {
						want[si] = append(want[si], e)
					}
				}
			}
			c.Count("ceq.queries", 1)
			if multi {
				c.Distinct(append(gen.Bits(a, b), uint64(ct), uint64(c.I))...)
			}
			em := ceq.CrossingsEdgeMap(a, b, ct)
			got := map[int][]int{}
			for sh, es := range em {
				for si, o := range objs {
					if o.Shape == sh {
						got[si] = append([]int(nil), es...)
					}
				}
			}
			if fmt.Sprint(got) != fmt.Sprint(want) {
				d := baseDet()
				d["a"], d["b"], d["type"], d["got"], d["want"], d["query_number_on_this_index"] = gen.Hex(a), gen.Hex(b), tname, fmt.Sprint(got), fmt.Sprint(want), k
				c.Violation("CrossingEdgeQuery/CrossingsEdgeMap/"+tname+"/wrong-answer", fmt.Sprintf("CrossingsEdgeMap=%v, scan over all edges says %v", got, want), d)
			}
			si := r.Intn(len(objs))
			g1 := ceq.Crossings(a, b, objs[si].Shape, ct)
			if fmt.Sprint(append([]int{}, g1...)) != fmt.Sprint(append([]int{}, want[si]...)) {
				d := baseDet()
				d["a"], d["b"], d["type"], d["shape_id"], d["got"], d["want"] = gen.Hex(a), gen.Hex(b), tname, si, fmt.Sprint(g1), fmt.Sprint(want[si])
				c.Violation("CrossingEdgeQuery/Crossings/"+tname+"/wrong-answer", fmt.Sprintf("Crossings(shape %d)=%v, scan says %v", si, g1, want[si]), d)
			}
		}
	}
	// the index must be unchanged by the queries: re-check a few containment answers through a fresh query object
	q2 := s2.NewContainsPointQuery(idx, s2.VertexModelSemiOpen)
	for k := 0; k < 10 && k < len(ps); k++ {
		p := ps[r.Intn(len(ps))]
		for si, o := range objs {
			if got, w := q2.ShapeContains(o.Shape, p), o.Contains(p, s2.VertexModelSemiOpen); got != w {
				d := baseDet()
				d["probe"], d["shape_id"] = gen.Hex(p), si
				c.Violation("ContainsPointQuery/after-crossing-queries/wrong-answer", "containment answer changed after crossing queries ran on the same index", d)
			}
		}
	}
	_ = math.Pi
}

// cellRelations: Loop/Polygon ContainsCell and IntersectsCell against cells
// whose relation to a star loop is known by construction or decided by exact
// vertex/edge tests.
// multiLoopCellRelations: polygons of several small loops close to each other (islands side by side, some
// with a hole), so that edges of different loops share index cells; cells between, inside and around them.
func multiLoopCellRelations(c *mon.Case) {
	r := c.R
	ctr := gen.RandCenter(r)
	R := gen.LogUniform(r, 1e-4, 0.3)
	k := 2 + r.Intn(4)
	x, y, z := gen.Frame(ctr)
	type isl struct {
		sp   gen.LoopSpec
		hole *gen.LoopSpec
	}
	var islands []isl
	var loops []*s2.Loop
	var models []*ref.LoopModel
	for j := 0; j < k; j++ {
		cj := gen.AtPolar(x, y, z, R, 2*math.Pi*float64(j)/float64(k))
		rad := R * math.Sin(math.Pi/float64(k)) * (0.5 + 0.4*r.Float64())
		sp := gen.StarLoop(r, cj, 3+r.Intn(5), rad*0.7, rad)
		it := isl{sp: sp}
		loops = append(loops, sp.Loop())
		models = append(models, ref.NewLoopModel(gen.Vs(sp.Vs), origin, refDir))
		if r.Intn(3) == 0 {
			h := gen.StarLoop(r, cj, 3+r.Intn(5), sp.RMin*0.3, sp.RMin*0.5)
			it.hole = &h
			loops = append(loops, h.Loop())
			models = append(models, ref.NewLoopModel(gen.Vs(h.Vs), origin, refDir))
		}
		islands = append(islands, it)
	}
	r.Shuffle(len(loops), func(i, j int) { loops[i], loops[j] = loops[j], loops[i] })
	poly := s2.PolygonFromLoops(loops)
	in := func(p s2.Point) bool {
		n := 0
		for _, m := range models {
			if m.Contains(gen.V(p)) {
				n++
			}
		}
		return n%2 == 1
	}
	for q := 0; q < 16; q++ {
		it := islands[r.Intn(len(islands))]
		var p s2.Point
		switch r.Intn(4) {
		case 0:
			p = gen.Near(r, ctr, R*2*r.Float64())
		case 1:
			p = gen.Near(r, it.sp.Center, it.sp.RMax*1.5*r.Float64())
		default:
			p = gen.BoundaryProbes(r, it.sp.Vs, 1)[0]
		}
		lvlMin := s2.MaxDiagMetric.MinLevel(R * 2)
		if lvlMin > 30 {
			lvlMin = 30
		}
		lvl := lvlMin + r.Intn(31-lvlMin)
		cell := s2.CellFromCellID(s2.CellFromPoint(p).ID().Parent(lvl))
		var samples []s2.Point
		for j := 0; j < 4; j++ {
			samples = append(samples, cell.Vertex(j), s2.Point{Vector: cell.Vertex(j).Add(cell.Vertex((j + 1) % 4).Vector).Normalize()})
		}
		samples = append(samples, cell.Center())
		allIn, anyIn := true, false
		for _, sm := range samples {
			if in(sm) {
				anyIn = true
			} else {
				allIn = false
			}
		}
		diag := cell.Vertex(0).Distance(cell.Vertex(2)).Radians()
		// clear-cut: well inside one island's inner ring (outside its hole's outer disc) / well outside every island
		deepIn, farOut := false, true
		for _, o := range islands {
			d := cell.Center().Distance(o.sp.Center).Radians()
			if d-diag <= o.sp.RMax*1.02+1e-12 {
				farOut = false
			}
			if d+diag < o.sp.RMin*0.98 && (o.hole == nil || d-diag > o.hole.RMax*1.02) {
				deepIn = true
			}
		}
		det := map[string]any{"loops": len(loops), "islands": k, "cell": cell.ID().ToToken(), "level": lvl, "center": gen.Hex(ctr), "radius": R}
		c.Count("cellrel.cells", 1)
		c.Count("cellrel.multi_loop_cells", 1)
		c.Distinct(uint64(cell.ID()), uint64(c.I))
		contains, intersects := poly.ContainsCell(cell), poly.IntersectsCell(cell)
		if contains && !allIn {
			c.Violation("Polygon/ContainsCell/true-but-cell-point-outside/wrong-answer", "Polygon.ContainsCell is true but a vertex/edge midpoint/centre of the cell is outside", det)
		}
		if !intersects && anyIn {
			c.Violation("Polygon/IntersectsCell/false-but-common-point/wrong-answer", "Polygon.IntersectsCell is false but the cell and the region share a point", det)
		}
		if contains && !intersects {
			c.Violation("Polygon/ContainsCell-implies-IntersectsCell/wrong-answer", "ContainsCell but not IntersectsCell", det)
		}
		if deepIn && !contains {
			c.Violation("Polygon/ContainsCell/false-for-cell-deep-inside/wrong-answer", "Polygon.ContainsCell is false for a cell well inside one of the polygon's shells", det)
		}
		if farOut && (intersects || contains) {
			c.Violation("Polygon/IntersectsCell/true-for-cell-far-outside/wrong-answer", "Polygon.IntersectsCell is true for a cell well outside every loop of the polygon", det)
		}
	}
}

func cellRelations(c *mon.Case) {
	r := c.R
	if r.Intn(2) == 0 {
		multiLoopCellRelations(c)
		return
	}
	sp := gen.RandLoopSpec(r, 300)
	if sp.RMin <= 0 {
		return
	}
	model := ref.NewLoopModel(gen.Vs(sp.Vs), origin, refDir)
	loop := sp.Loop()
	poly := s2.PolygonFromOrientedLoops([]*s2.Loop{sp.Loop()})
	for k := 0; k < 12; k++ {
		// cells around the boundary, inside the inner disc, outside the outer disc
		var p s2.Point
		switch r.Intn(4) {
		case 0:
			p = gen.Near(r, sp.Center, sp.RMin*0.5*r.Float64())
		case 1:
			p = gen.Near(r, sp.Center, sp.RMax*(1.2+r.Float64()))
		default:
			p = gen.BoundaryProbes(r, sp.Vs, 1)[0]
		}
		lvlMin := s2.MaxDiagMetric.MinLevel(sp.RMax * 4)
		if lvlMin > 30 {
			lvlMin = 30
		}
		lvl := lvlMin + r.Intn(31-lvlMin)
		cell := s2.CellFromCellID(s2.CellFromPoint(p).ID().Parent(lvl))
		// facts from sample points and exact tests
		var samples []s2.Point
		for j := 0; j < 4; j++ {
			samples = append(samples, cell.Vertex(j), s2.Point{Vector: cell.Vertex(j).Add(cell.Vertex((j + 1) % 4).Vector).Normalize()})
		}
		samples = append(samples, cell.Center())
		allIn, anyIn := true, false
		for _, s := range samples {
			if model.Contains(gen.V(s)) {
				anyIn = true
			} else {
				allIn = false
			}
		}
		// a loop vertex strictly inside the cell quadrilateral (exact orientation)
		vertexInside := false
		for _, v := range sp.Vs {
			in := true
			for j := 0; j < 4; j++ {
				if ref.Orient(gen.V(cell.Vertex(j)), gen.V(cell.Vertex((j+1)%4)), gen.V(v)) <= 0 {
					in = false
				}
			}
			if in {
				vertexInside = true
				break
			}
		}
		// distances for the clear-cut cases
		far := cell.Center().Distance(sp.Center).Radians()
		diag := cell.Vertex(0).Distance(cell.Vertex(2)).Radians()
		det := map[string]any{"kind": sp.Kind, "n": len(sp.Vs), "cell": cell.ID().ToToken(), "level": lvl, "loop_head": gen.HexAll(sp.Vs[:3]...)}
		c.Count("cellrel.cells", 1)
		c.Distinct(uint64(cell.ID()), uint64(c.I))
		for name, pair := range map[string][2]bool{"Loop": {loop.ContainsCell(cell), loop.IntersectsCell(cell)}, "Polygon": {poly.ContainsCell(cell), poly.IntersectsCell(cell)}} {
			contains, intersects := pair[0], pair[1]
			if contains && (!allIn || vertexInside) {
				c.Violation(name+"/ContainsCell/true-but-cell-point-outside/wrong-answer", name+".ContainsCell is true but a vertex/edge midpoint/centre of the cell is outside (or a loop vertex is inside the cell)", det)
			}
			if !intersects && (anyIn || vertexInside) {
				c.Violation(name+"/IntersectsCell/false-but-common-point/wrong-answer", name+".IntersectsCell is false but the cell and the region share a point", det)
			}
			if contains && !intersects {
				c.Violation(name+"/ContainsCell-implies-IntersectsCell/wrong-answer", "ContainsCell but not IntersectsCell", det)
			}
			// clear-cut by construction
			if far+diag < sp.RMin*0.98 && !contains {
				c.Violation(name+"/ContainsCell/false-for-cell-deep-inside/wrong-answer", name+".ContainsCell is false for a cell well inside the loop's inner disc", det)
			}
			if far-diag > sp.RMax*1.02+1e-9 && (intersects || contains) && sp.RMax < 1 {
				c.Violation(name+"/IntersectsCell/true-for-cell-far-outside/wrong-answer", name+".IntersectsCell is true for a cell well outside the loop's outer disc", det)
			}
		}
	}
}
