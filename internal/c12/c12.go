// Package c12 monitors C12: cell geometry agrees with cell ids — containment,
// children, bounds and distances.
package c12

import (
	"fmt"
	"math"
	"math/big"
	"math/rand"

	"github.com/golang/geo/r1"
	"github.com/golang/geo/r2"
	"github.com/golang/geo/s1"
	"github.com/golang/geo/s2"

	"verif/internal/gen"
	"verif/internal/mon"
	"verif/internal/ref"
)

func Run(m *mon.M) {
	m.Rule = "cells of every face and level (also cells at face edges and cube corners) with targets on the cell boundary, at its vertices +- ulps, inside, outside at 1e-15..pi, at cube corners, antipodal to the cell; edge targets grazing a cell vertex, crossing the cell, longer than 90 degrees; cell targets adjacent, nested, across faces, antipodal. A (cell, target) pair is non-trivial and distinct when new AND (the target touches or crosses the cell boundary within 1e-9 of the cell size, or lies inside, or the maximum distance goes through the antipode)"
	m.Assumptions = []string{"a cell's point set is the closed spherical quadrilateral of its four Vertex(k) (exact orientation tests), not the deliberately widened Cell.ContainsPoint", "internal/ref 320-bit distances to the four boundary geodesics; tolerance = 4 x the library's documented minUpdateDistanceMaxError (no bound is documented for Cell distances)"}
	m.Require("dist.point.inside", 5000)
	m.Require("dist.point.outside", 20000)
	m.Require("dist.edge.crossing", 2000)
	m.Require("maxdist.edge.through_antipode", 2000)
	m.Require("children.checked", 5000)
	m.Stream("structure", m.N(15000, 600000), structure)
	m.Stream("bounds.vertices", m.N(1600000, 16000000), boundsVertices)
	m.Stream("point", m.N(40000, 2000000), pointTarget)
	m.Stream("edge", m.N(20000, 1000000), edgeTarget)
	m.Stream("cell", m.N(12000, 600000), cellTarget)
	m.Require("padded.shrink_checked", 3000)
	m.Stream("padded", m.N(15000, 400000), padded)
}

func hp(p s2.Point) ref.H { return ref.HV(gen.V(p)) }

func randCell(r *rand.Rand) s2.Cell {
	lvl := r.Intn(31)
	switch r.Intn(4) {
	case 0: // at a face edge / cube corner
		p := gen.OnPlane(r, 3+r.Intn(6))
		if r.Intn(3) == 0 {
			p = gen.Special(r)
		}
		return s2.CellFromCellID(s2.CellFromPoint(p).ID().Parent(lvl))
	default:
		return s2.CellFromCellID(gen.RandCellID(r, lvl))
	}
}

// inQuad: p inside or on the closed quadrilateral of the cell's vertices (exact).
func inQuad(c s2.Cell, p s2.Point) bool {
	for k := 0; k < 4; k++ {
		if ref.Orient(gen.V(c.Vertex(k)), gen.V(c.Vertex((k+1)%4)), gen.V(p)) < 0 {
			return false
		}
	}
	return true
}

// samples: points of the cell by the geometric definition.
func samples(r *rand.Rand, c s2.Cell) []s2.Point {
	var ps []s2.Point
	v := [4]s2.Point{c.Vertex(0), c.Vertex(1), c.Vertex(2), c.Vertex(3)}
	for k := 0; k < 4; k++ {
		ps = append(ps, v[k])
		t := r.Float64()
		ps = append(ps, s2.Point{Vector: v[k].Mul(1 - t).Add(v[(k+1)%4].Mul(t)).Normalize()})
		ps = append(ps, s2.Point{Vector: v[k].Add(v[(k+1)%4].Vector).Normalize()})
	}
	ps = append(ps, c.Center())
	for i := 0; i < 4; i++ {
		a, b := r.Float64(), r.Float64()
		p := v[0].Mul((1 - a) * (1 - b)).Add(v[1].Mul(a * (1 - b))).Add(v[2].Mul(a * b)).Add(v[3].Mul((1 - a) * b))
		ps = append(ps, s2.Point{Vector: p.Normalize()})
	}
	var out []s2.Point
	for _, p := range ps {
		if inQuad(c, p) {
			out = append(out, p)
		}
	}
	return out
}

func cellDiag(c s2.Cell) float64 { return c.Vertex(0).Distance(c.Vertex(2)).Radians() }

func structure(c *mon.Case) {
	r := c.R
	cell := randCell(r)
	id := cell.ID()
	det := func() any { return map[string]any{"cell": id.ToToken(), "level": cell.Level(), "face": cell.Face()} }
	if c.I < 3 {
		c.Sample(det())
	}
	// (a') the finest cells, where the conversion error of a point is largest relative to the cell: points on the
	// vertices and edges of level-28..30 cells, nudged by ulps, against their leaf cell and its ancestors
	for k := 0; k < 40; k++ {
		fc := s2.CellFromCellID(gen.RandCellID(r, 28+r.Intn(3)))
		j := r.Intn(4)
		t := []float64{0, 0, r.Float64()}[r.Intn(3)]
		p := gen.NudgeUlps(r, s2.Point{Vector: fc.Vertex(j).Mul(1 - t).Add(fc.Vertex((j + 1) % 4).Mul(t)).Normalize()}, r.Intn(4))
		leaf := s2.CellFromPoint(p).ID()
		c.Count("contains.fine_boundary_points", 1)
		for _, lv := range []int{30, 29, 28, r.Intn(28)} {
			if !s2.CellFromCellID(leaf.Parent(lv)).ContainsPoint(p) {
				c.Violation("ContainsPoint/misses-point-of-its-leaf-range/wrong-answer", fmt.Sprintf("the level-%d ancestor of the point's own leaf cell does not contain the point %s", lv, gen.Hex(p)), map[string]any{"point": gen.Hex(p), "leaf": leaf.ToToken(), "level": lv})
				break
			}
		}
	}
	// (a) every point whose leaf lies in the id range is contained
	for k := 0; k < 6; k++ {
		var p s2.Point
		switch r.Intn(3) {
		case 0:
			p = gen.NudgeUlps(r, cell.Vertex(r.Intn(4)), r.Intn(4))
		case 1:
			j := r.Intn(4)
			t := r.Float64()
			p = gen.NudgeUlps(r, s2.Point{Vector: cell.Vertex(j).Mul(1 - t).Add(cell.Vertex((j + 1) % 4).Mul(t)).Normalize()}, r.Intn(3))
		default:
			p = gen.Near(r, cell.Center(), cellDiag(cell)*r.Float64())
		}
		leaf := s2.CellFromPoint(p).ID()
		if id.Contains(leaf) && !cell.ContainsPoint(p) {
			c.Violation("ContainsPoint/misses-point-of-its-leaf-range/wrong-answer", "the cell does not contain a point whose leaf cell lies within its id range: "+gen.Hex(p), det())
		}
	}
	// (b) children
	if !id.IsLeaf() {
		ch, ok := cell.Children()
		if !ok {
			c.Violation("Children/not-ok-for-non-leaf/wrong-answer", "Children() failed for a non-leaf cell", det())
		} else {
			ids := id.Children()
			for k := 0; k < 4; k++ {
				want := s2.CellFromCellID(ids[k])
				c.Count("children.checked", 1)
				same := ch[k].ID() == want.ID() && ch[k].Level() == want.Level() && ch[k].Face() == want.Face() && ch[k].BoundUV() == want.BoundUV()
				for j := 0; j < 4 && same; j++ {
					same = ch[k].Vertex(j) == want.Vertex(j) && ch[k].Edge(j) == want.Edge(j)
				}
				same = same && ch[k].Center() == want.Center() && ch[k].RectBound() == want.RectBound()
				if !same {
					c.Violation("Children/differs-from-CellFromCellID/wrong-answer", fmt.Sprintf("child %d differs from the cell constructed from its id", k), det())
				}
			}
		}
	} else if _, ok := cell.Children(); ok {
		c.Violation("Children/ok-for-leaf/wrong-answer", "Children() succeeded for a leaf cell", det())
	}
	// (c) bounds
	rb, cb := cell.RectBound(), cell.CapBound()
	for _, p := range samples(r, cell) {
		c.Count("bounds.samples", 1)
		if !rb.ContainsLatLng(s2.LatLngFromPoint(p)) {
			c.Violation("RectBound/misses-cell-point/wrong-answer", "a point of the cell (inside the quadrilateral of its vertices) lies outside RectBound: "+gen.Hex(p), det())
		}
		if !cb.ContainsPoint(p) {
			c.Violation("CapBound/misses-cell-point/wrong-answer", "a point of the cell lies outside CapBound: "+gen.Hex(p), det())
		}
	}
	c.Distinct(uint64(id))
}

// trueDistToBoundary: squared chord distance from p to the nearest of the four boundary geodesics.
// boundsVertices: the four vertices of a cell are points of the cell, so RectBound and CapBound contain them
// exactly as the library evaluates them (LatLngFromPoint of the vertex; Cap.ContainsPoint). Bulk stream: a
// cell, its edge neighbours and its children per case, two thirds of them on the polar faces above 57 degrees
// of latitude, where one ulp of latitude is a whole 2^-52.
func boundsVertices(c *mon.Case) {
	r := c.R
	p := gen.Uniform(r)
	if r.Intn(3) != 0 {
		pole := s2.PointFromCoords(0, 0, float64(1-2*r.Intn(2)))
		p = gen.Near(r, pole, 0.57*r.Float64())
	}
	id := s2.CellFromPoint(p).ID().Parent(1 + r.Intn(30))
	en := id.EdgeNeighbors()
	ids := append([]s2.CellID{id}, en[:]...)
	if !id.IsLeaf() {
		ch := id.Children()
		ids = append(ids, ch[:]...)
	}
	for _, x := range ids {
		cell := s2.CellFromCellID(x)
		rb, cb := cell.RectBound(), cell.CapBound()
		c.Count("bounds.cells_with_all_vertices_checked", 1)
		for k := 0; k < 4; k++ {
			v := cell.Vertex(k)
			if !rb.ContainsLatLng(s2.LatLngFromPoint(v)) {
				c.Violation("RectBound/misses-cell-vertex/wrong-answer", fmt.Sprintf("vertex %d of cell %s lies outside the cell's RectBound", k, x.ToToken()), map[string]any{"cell": x.ToToken(), "vertex": gen.Hex(v), "level": x.Level()})
				return
			}
			if !cb.ContainsPoint(v) {
				c.Violation("CapBound/misses-cell-vertex/wrong-answer", fmt.Sprintf("vertex %d of cell %s lies outside the cell's CapBound", k, x.ToToken()), map[string]any{"cell": x.ToToken(), "vertex": gen.Hex(v), "level": x.Level()})
				return
			}
		}
	}
	c.Distinct(uint64(id))
}

func trueDistToBoundary(c s2.Cell, p s2.Point) float64 {
	best := math.Inf(1)
	for k := 0; k < 4; k++ {
		d := ref.Fl(ref.DistChord2ToSegment(hp(p), hp(c.Vertex(k)), hp(c.Vertex((k+1)%4))))
		best = math.Min(best, d)
	}
	return best
}

func boolf(b bool) float64 {
	if b {
		return 1
	}
	return 0
}

func tol(d float64) float64 {
	// Cell distances document no error bound of their own; the monitor allows 32x the bound of the per-edge
	// primitive (the largest errors seen in two thorough runs of 4.6*10^6 cases were 4.1x and 10x, both for
	// face cells and targets about 90 degrees away: the (u,v) formulas lose a few more bits there)
	return 32*s2.VerifMinUpdateDistanceMaxError(s1.ChordAngle(math.Min(4, math.Max(0, d)))) + 1e-30
}

func pointTarget(c *mon.Case) {
	r := c.R
	cell := randCell(r)
	dg := cellDiag(cell)
	var p s2.Point
	kind := ""
	switch r.Intn(9) {
	case 0:
		p, kind = gen.NudgeUlps(r, cell.Vertex(r.Intn(4)), r.Intn(4)), "vertex"
	case 1:
		j := r.Intn(4)
		t := r.Float64()
		p, kind = s2.Point{Vector: cell.Vertex(j).Mul(1 - t).Add(cell.Vertex((j + 1) % 4).Mul(t)).Normalize()}, "on-boundary"
	case 2:
		p, kind = gen.Near(r, cell.Center(), dg*0.4*r.Float64()), "inside"
	case 3:
		p, kind = gen.Near(r, cell.Vertex(r.Intn(4)), gen.LogUniform(r, 1e-15, 1)), "near-vertex"
	case 4:
		p, kind = s2.Point{Vector: gen.Near(r, cell.Center(), dg*r.Float64()).Mul(-1)}, "antipodal"
	case 5:
		p, kind = gen.Special(r), "cube-corner-or-axis"
	case 6:
		p, kind = gen.Near(r, cell.Center(), dg*(0.5+2*r.Float64())), "around"
	default:
		p, kind = gen.Uniform(r), "uniform"
	}
	if r.Intn(12) == 0 {
		// within 1e-12..1e-6 rad of a pole of the great circle of one cell edge (or exactly there): the target is
		// 90 degrees from every point of that edge
		j := r.Intn(4)
		pole := s2.Point{Vector: cell.Vertex(j).PointCross(cell.Vertex((j + 1) % 4)).Normalize()}
		if r.Intn(2) == 0 {
			pole = s2.Point{Vector: pole.Mul(-1)}
		}
		p, kind = gen.Near(r, pole, gen.LogUniform(r, 1e-12, 1e-6)), "near-pole-of-an-edge-circle"
		if r.Intn(8) == 0 {
			p = pole
		}
		c.Count("dist.point.near_pole_of_edge_circle", 1)
	}
	// the planar (u,v,w) formulas cancel when the target is perpendicular to the plane of a cell edge
	// ("this calculation loses accuracy as the angle approaches pi/2" in the source): misses of that kind up to
	// 6e-8 in squared chord length (3e-8 rad) are classified separately
	class := func(e float64) string {
		if kind != "near-pole-of-an-edge-circle" {
			return mon.Severity(e)
		}
		switch {
		case math.IsNaN(e):
			return "near-pole-of-an-edge-circle/not-a-number"
		case e <= 6e-8:
			return "near-pole-of-an-edge-circle/cancellation-near-90-degrees"
		}
		return "near-pole-of-an-edge-circle/" + mon.Severity(e)
	}
	det := func(extra map[string]any) any {
		d := map[string]any{"cell": cell.ID().ToToken(), "level": cell.Level(), "target": gen.Hex(p), "target_kind": kind}
		for k, v := range extra {
			d[k] = v
		}
		return d
	}
	if c.I < 3 {
		c.Sample(det(nil))
	}
	inside := inQuad(cell, p)
	bd := trueDistToBoundary(cell, p)
	trueMin := bd
	if inside {
		trueMin = 0
		c.Count("dist.point.inside", 1)
	} else {
		c.Count("dist.point.outside", 1)
	}
	if inside || bd < 1e-18*dg*dg+1e-30 || kind == "antipodal" {
		c.Distinct(uint64(cell.ID()), gen.Bits(p)[0], gen.Bits(p)[1])
	}
	d := float64(cell.Distance(p))
	c.Max("Distance.max_error_over_tolerance", math.Abs(d-trueMin)/tol(d))
	if !(math.Abs(d-trueMin) <= tol(math.Max(d, trueMin))) {
		c.Violation("Distance/point/"+class(math.Abs(d-trueMin)), fmt.Sprintf("Distance=%.17g, exact %.17g (target inside: %v)", d, trueMin, inside), det(nil))
	}
	b := float64(cell.BoundaryDistance(p))
	if !(math.Abs(b-bd) <= tol(math.Max(b, bd))) {
		c.Violation("BoundaryDistance/point/"+class(math.Abs(b-bd)), fmt.Sprintf("BoundaryDistance=%.17g, exact distance to the nearest boundary geodesic %.17g (target inside: %v)", b, bd, inside), det(nil))
	}
	// maximum distance: duality through the antipode, and bounds over sample points
	mx := float64(cell.MaxDistance(p))
	anti := s2.Point{Vector: p.Mul(-1)}
	trueMax := 4 - func() float64 {
		if inQuad(cell, anti) {
			return 0
		}
		return trueDistToBoundary(cell, anti)
	}()
	if !(math.Abs(mx-trueMax) <= tol(4-math.Min(mx, trueMax))+4e-16*4) {
		c.Violation("MaxDistance/point/"+class(math.Abs(mx-trueMax)), fmt.Sprintf("MaxDistance=%.17g, exact %.17g", mx, trueMax), det(nil))
	}
	for _, s := range samples(r, cell) {
		cs := ref.Fl(ref.Chord2(hp(p), hp(s)))
		if cs < d-tol(d) || math.IsNaN(d) {
			c.Violation("Distance/point/cell-point-closer-than-minimum/"+class(d-cs), fmt.Sprintf("a point of the cell is at %.17g, closer than the reported minimum %.17g", cs, d), det(map[string]any{"cell_point": gen.Hex(s)}))
			break
		}
		if cs > mx+tol(4-mx)+4e-16*4 || math.IsNaN(mx) {
			c.Violation("MaxDistance/point/cell-point-farther-than-maximum/"+class(cs-mx), fmt.Sprintf("a point of the cell is at %.17g, farther than the reported maximum %.17g", cs, mx), det(map[string]any{"cell_point": gen.Hex(s)}))
			break
		}
	}
}

// trueEdgeDist: squared chord distance between edge ab and the cell (0 if it meets the cell).
func trueEdgeDist(c s2.Cell, a, b s2.Point) (float64, bool) {
	if inQuad(c, a) || inQuad(c, b) {
		return 0, true
	}
	best := math.Inf(1)
	for k := 0; k < 4; k++ {
		v0, v1 := c.Vertex(k), c.Vertex((k+1)%4)
		if a != b && ref.CrossingSign(gen.V(a), gen.V(b), gen.V(v0), gen.V(v1)) != ref.DoNotCross {
			return 0, true
		}
		best = math.Min(best, ref.Fl(ref.DistChord2ToSegment(hp(a), hp(v0), hp(v1))))
		best = math.Min(best, ref.Fl(ref.DistChord2ToSegment(hp(b), hp(v0), hp(v1))))
		if a != b {
			best = math.Min(best, ref.Fl(ref.DistChord2ToSegment(hp(v0), hp(a), hp(b))))
		}
	}
	return best, false
}

func edgeTarget(c *mon.Case) {
	r := c.R
	cell := randCell(r)
	dg := cellDiag(cell)
	var a, b s2.Point
	kind := ""
	switch r.Intn(7) {
	case 0: // grazing a vertex
		v := cell.Vertex(r.Intn(4))
		a = gen.Near(r, v, dg*gen.LogUniform(r, 1e-3, 3))
		b = s2.Point{Vector: v.Mul(2 * v.Dot(a.Vector)).Sub(a.Vector).Normalize()}
		b = gen.NudgeUlps(r, b, r.Intn(3))
		kind = "grazing-vertex"
	case 1: // crossing the cell
		a = gen.Near(r, cell.Center(), dg*(1+r.Float64()))
		b = s2.Point{Vector: cell.Center().Mul(2 * cell.Center().Dot(a.Vector)).Sub(a.Vector).Normalize()}
		kind = "crossing"
	case 2: // long edge (> 90 degrees)
		a = gen.Uniform(r)
		b = gen.Near(r, s2.Point{Vector: a.Mul(-1)}, 0.1+r.Float64())
		kind = "long"
	case 3: // antipodal image crosses the cell
		a = s2.Point{Vector: gen.Near(r, cell.Center(), dg*(1+r.Float64())).Mul(-1)}
		b = s2.Point{Vector: gen.Near(r, cell.Center(), dg*(1+r.Float64())).Mul(-1)}
		kind = "antipodal-crossing"
	case 4:
		a = gen.Near(r, cell.Center(), dg*3*r.Float64())
		b = gen.Near(r, a, dg*gen.LogUniform(r, 1e-6, 3))
		kind = "near"
	case 5: // one endpoint within 90 degrees of the whole cell, the other beyond
		a = gen.Near(r, cell.Center(), 0.3+r.Float64())
		b = gen.Near(r, cell.Center(), math.Pi/2+0.2+r.Float64())
		kind = "straddling-90"
	default:
		a, b = gen.Uniform(r), gen.Uniform(r)
		kind = "uniform"
	}
	if a.Add(b.Vector).Norm() < 1e-6 || a == b {
		return
	}
	det := func(extra map[string]any) any {
		d := map[string]any{"cell": cell.ID().ToToken(), "level": cell.Level(), "a": gen.Hex(a), "b": gen.Hex(b), "edge_kind": kind}
		for k, v := range extra {
			d[k] = v
		}
		return d
	}
	if c.I < 3 {
		c.Sample(det(nil))
	}
	trueMin, meets := trueEdgeDist(cell, a, b)
	if meets {
		c.Count("dist.edge.crossing", 1)
		c.Distinct(uint64(cell.ID()), gen.Bits(a)[0], gen.Bits(b)[0])
	}
	d := float64(cell.DistanceToEdge(a, b))
	if math.Abs(d-trueMin) > tol(math.Max(d, trueMin)) {
		c.Violation("DistanceToEdge/"+mon.Severity(math.Abs(d-trueMin)), fmt.Sprintf("DistanceToEdge=%.17g, exact %.17g (edge meets the cell: %v)", d, trueMin, meets), det(nil))
	}
	// maximum distance: pi minus the minimum distance of the antipodal edge
	an, bn := s2.Point{Vector: a.Mul(-1)}, s2.Point{Vector: b.Mul(-1)}
	antiMin, _ := trueEdgeDist(cell, an, bn)
	trueMax := 4 - antiMin
	if trueMax > 2.000001 {
		c.Count("maxdist.edge.through_antipode", 1)
		c.Distinct(uint64(cell.ID()), gen.Bits(a)[1], gen.Bits(b)[1])
	}
	mx := float64(cell.MaxDistanceToEdge(a, b))
	cond := 2 / a.Add(b.Vector).Norm()
	tm := tol(4-math.Min(mx, trueMax)) + 4e-16*4 + 2e-15*cond
	if math.Abs(mx-trueMax) > tm {
		c.Violation("MaxDistanceToEdge/"+mon.Severity(math.Abs(mx-trueMax)), fmt.Sprintf("MaxDistanceToEdge=%.17g, exact %.17g", mx, trueMax), det(nil))
	}
	// no point of the cell is closer to the edge than the minimum / farther than the maximum
	for _, s := range samples(r, cell) {
		cs := ref.Fl(ref.DistChord2ToSegment(hp(s), hp(a), hp(b)))
		if cs < d-tol(d) {
			c.Violation("DistanceToEdge/cell-point-closer-than-minimum/"+mon.Severity(d-cs), fmt.Sprintf("a point of the cell is at %.17g from the edge, the reported minimum is %.17g", cs, d), det(map[string]any{"cell_point": gen.Hex(s)}))
			break
		}
	}
}

func cellTarget(c *mon.Case) {
	r := c.R
	cell := randCell(r)
	var other s2.Cell
	kind := ""
	switch r.Intn(7) {
	case 6: // a cell of another level on the same face that only touches the cell (part of an edge, or a corner)
		var nb []s2.CellID
		if cell.Level() > 0 {
			nb = cell.ID().AllNeighbors(cell.Level() - r.Intn(minInt(cell.Level(), 4)))
		}
		var cand []s2.Cell
		for _, id := range nb {
			if o := s2.CellFromCellID(id); o.Face() == cell.Face() && !id.Intersects(cell.ID()) && o.BoundUV().Intersects(cell.BoundUV()) {
				cand = append(cand, o)
			}
		}
		if len(cand) == 0 {
			return
		}
		other, kind = cand[r.Intn(len(cand))], "touching-same-face"
		for steps := r.Intn(6); steps > 0 && !other.ID().IsLeaf(); steps-- {
			ch := other.ID().Children()
			for _, k := range r.Perm(4) {
				if o := s2.CellFromCellID(ch[k]); o.BoundUV().Intersects(cell.BoundUV()) {
					other = o
					break
				}
			}
		}
		c.Count("dist.cell.touching_same_face", 1)
	case 0:
		other, kind = s2.CellFromCellID(cell.ID().EdgeNeighbors()[r.Intn(4)]), "edge-neighbour"
	case 1:
		if cell.Level() == 0 {
			return
		}
		vn := cell.ID().VertexNeighbors(cell.Level() - 1)
		other, kind = s2.CellFromCellID(vn[r.Intn(len(vn))]), "vertex-neighbour-of-parent"
	case 2:
		if cell.ID().IsLeaf() {
			return
		}
		other, kind = s2.CellFromCellID(cell.ID().Children()[r.Intn(4)]), "child"
	case 3: // antipodal
		other, kind = s2.CellFromCellID(s2.CellFromPoint(s2.Point{Vector: cell.Center().Mul(-1)}).ID().Parent(r.Intn(31))), "antipodal"
	case 4:
		other, kind = s2.CellFromCellID(s2.CellFromPoint(gen.Near(r, cell.Center(), cellDiag(cell)*3*r.Float64())).ID().Parent(r.Intn(31))), "nearby"
	default:
		other, kind = randCell(r), "random"
	}
	det := func() any {
		return map[string]any{"cell": cell.ID().ToToken(), "other": other.ID().ToToken(), "kind": kind}
	}
	if c.I < 3 {
		c.Sample(det())
	}
	c.Count("dist.cell.pairs", 1)
	// exact minimum: 0 if the ids intersect or the boundaries meet; else minimum over boundary geodesic pairs
	trueMin := math.Inf(1)
	if cell.ID().Intersects(other.ID()) {
		trueMin = 0
	} else {
		for i := 0; i < 4 && trueMin > 0; i++ {
			for j := 0; j < 4; j++ {
				a0, a1, b0, b1 := cell.Vertex(i), cell.Vertex((i+1)%4), other.Vertex(j), other.Vertex((j+1)%4)
				if ref.CrossingSign(gen.V(a0), gen.V(a1), gen.V(b0), gen.V(b1)) != ref.DoNotCross {
					trueMin = 0
					break
				}
				trueMin = math.Min(trueMin, ref.Fl(ref.DistChord2ToSegment(hp(a0), hp(b0), hp(b1))))
				trueMin = math.Min(trueMin, ref.Fl(ref.DistChord2ToSegment(hp(b0), hp(a0), hp(a1))))
			}
		}
	}
	d := float64(cell.DistanceToCell(other))
	if trueMin < 1e-25 {
		c.Distinct(uint64(cell.ID()), uint64(other.ID()))
	}
	if math.Abs(d-trueMin) > tol(math.Max(d, trueMin)) {
		c.Violation("DistanceToCell/"+mon.Severity(math.Abs(d-trueMin)), fmt.Sprintf("DistanceToCell=%.17g, exact %.17g", d, trueMin), det())
	}
	if cell.Face() == other.Face() && cell.BoundUV().Intersects(other.BoundUV()) {
		// on one face the cells are closed (u,v) rectangles with exactly represented sides: if these share a
		// point, part of the target lies in the cell and the minimum distance is zero, not "nearly zero"
		c.Count("dist.cell.sharing_points_on_one_face", 1)
		if d != 0 || float64(other.DistanceToCell(cell)) != 0 {
			c.Violation("DistanceToCell/nonzero-for-cells-sharing-points/wrong-answer", fmt.Sprintf("DistanceToCell=%.17g (other direction %.17g) for two cells of one face whose closed (u,v) rectangles share points", d, float64(other.DistanceToCell(cell))), det())
		}
	}
	if d2 := float64(other.DistanceToCell(cell)); math.Abs(d2-d) > tol(d) {
		c.Violation("DistanceToCell/asymmetric/"+mon.Severity(math.Abs(d2-d)), fmt.Sprintf("DistanceToCell differs by direction: %.17g vs %.17g", d, d2), det())
	}
	// maximum distance is at least the distance between any two sample points and at most pi
	mx := float64(cell.MaxDistanceToCell(other))
	if mx < 0 || mx > 4 {
		c.Violation("MaxDistanceToCell/invalid/wrong-answer", fmt.Sprintf("MaxDistanceToCell=%v", mx), det())
	}
	// ... and it is attained: for cells that are nowhere near antipodal the farthest pair is a vertex of one cell
	// and a boundary point of the other (the farthest point of an edge from v is the nearest one to -v)
	if mx < 3 && cell.Level() >= 2 && other.Level() >= 2 {
		trueMax := 0.0
		four := new(big.Float).SetPrec(ref.Prec).SetInt64(4)
		for _, pr := range [][2]s2.Cell{{cell, other}, {other, cell}} {
			for i := 0; i < 4; i++ {
				nv := hp(s2.Point{Vector: pr[0].Vertex(i).Mul(-1)})
				for j := 0; j < 4; j++ {
					dm := ref.DistChord2ToSegment(nv, hp(pr[1].Vertex(j)), hp(pr[1].Vertex((j+1)%4)))
					trueMax = math.Max(trueMax, ref.Fl(new(big.Float).SetPrec(ref.Prec).Sub(four, dm))) // subtracted with 320 bits
				}
			}
		}
		c.Count("maxdist.cell.attained_checked", 1)
		if mx > trueMax+tol(trueMax) {
			c.Violation("MaxDistanceToCell/not-attained/"+mon.Severity(mx-trueMax), fmt.Sprintf("MaxDistanceToCell=%.17g (squared chord), but no two points of the cells are farther apart than %.17g", mx, trueMax), det())
		}
	}
	for _, s := range samples(r, cell)[:3] {
		for _, t := range samples(r, other)[:3] {
			cs := ref.Fl(ref.Chord2(hp(s), hp(t)))
			if cs > mx+tol(4-mx)+4e-16*4 {
				c.Violation("MaxDistanceToCell/cell-points-farther-than-maximum/"+mon.Severity(cs-mx), fmt.Sprintf("two points of the cells are at %.17g, the reported maximum is %.17g", cs, mx), det())
				return
			}
			if cs < d-tol(d) {
				c.Violation("DistanceToCell/cell-points-closer-than-minimum/"+mon.Severity(d-cs), fmt.Sprintf("two points of the cells are at %.17g, the reported minimum is %.17g", cs, d), det())
				return
			}
		}
	}
}

// padded: PaddedCell agrees with the cell it pads (bounds, children, curve order) and ShrinkToFit returns
// the smallest cell containing every descendant whose padded bound meets the rectangle.
func padded(c *mon.Case) {
	r := c.R
	level := r.Intn(29)
	id := gen.RandCellID(r, level)
	cell := s2.CellFromCellID(id)
	uv := cell.BoundUV()
	size := uv.X.Length()
	padding := []float64{0, 1e-15, size * 1e-3, size * 0.3, size * 2}[r.Intn(5)]
	pc := s2.PaddedCellFromCellID(id, padding)
	c.Count("padded.checked", 1)
	c.Distinct(uint64(id), math.Float64bits(padding))
	det := func(extra map[string]any) any {
		d := map[string]any{"cell": id.ToToken(), "level": level, "padding": padding}
		for k, v := range extra {
			d[k] = v
		}
		return d
	}
	if c.I < 2 {
		c.Sample(det(nil))
	}
	same := func(a, b r2.Rect) bool {
		return a.X.Lo == b.X.Lo && a.X.Hi == b.X.Hi && a.Y.Lo == b.Y.Lo && a.Y.Hi == b.Y.Hi
	}
	if pc.CellID() != id || pc.Level() != level || pc.Padding() != padding {
		c.Violation("PaddedCell/identity/wrong-answer", "CellID/Level/Padding do not return the construction arguments", det(nil))
	}
	if want := uv.ExpandedByMargin(padding); !same(pc.Bound(), want) {
		c.Violation("PaddedCell/Bound/wrong-answer", fmt.Sprintf("Bound %v differs from the cell's (u,v) bound expanded by the padding %v", pc.Bound(), want), det(nil))
	}
	if pc.Center() != cell.Center() && pc.Center().Distance(cell.Center()) > 1e-15 {
		c.Violation("PaddedCell/Center/wrong-answer", "Center differs from the cell's centre", det(nil))
	}
	if !id.IsLeaf() {
		kids := id.Children()
		var prevExit s2.Point
		for pos := 0; pos < 4; pos++ {
			i, j := pc.ChildIJ(pos)
			ch := s2.PaddedCellFromParentIJ(pc, i, j)
			if ch.CellID() != kids[pos] {
				c.Violation("PaddedCell/child-id/wrong-answer", fmt.Sprintf("child at traversal position %d is %s, the cell id's child is %s", pos, ch.CellID().ToToken(), kids[pos].ToToken()), det(nil))
				continue
			}
			direct := s2.PaddedCellFromCellID(kids[pos], padding)
			if !same(ch.Bound(), direct.Bound()) {
				c.Violation("PaddedCell/child-bound/wrong-answer", fmt.Sprintf("bound of the child built from its parent %v differs from the bound built from the child id %v", ch.Bound(), direct.Bound()), det(map[string]any{"pos": pos}))
			}
			if !ch.Bound().Contains(pc.Middle()) {
				c.Violation("PaddedCell/Middle/wrong-answer", "Middle() is not inside the padded bound of every child", det(map[string]any{"pos": pos}))
			}
			if ch.EntryVertex() != direct.EntryVertex() || ch.ExitVertex() != direct.ExitVertex() {
				c.Violation("PaddedCell/entry-exit/wrong-answer", "entry/exit vertex of the child built from its parent differs from the child built from its id", det(map[string]any{"pos": pos}))
			}
			if pos > 0 && ch.EntryVertex().Distance(prevExit) > 1e-15 {
				c.Violation("PaddedCell/curve-order/wrong-answer", fmt.Sprintf("child %d does not enter where child %d exits", pos, pos-1), det(nil))
			}
			prevExit = ch.ExitVertex()
		}
	}
	// ShrinkToFit
	b := pc.Bound()
	cx := b.X.Lo + r.Float64()*b.X.Length()
	cy := b.Y.Lo + r.Float64()*b.Y.Length()
	hx := size * gen.LogUniform(r, 1e-4, 2)
	hy := size * gen.LogUniform(r, 1e-4, 2)
	rect := r2.RectFromPoints(r2.Point{X: cx - hx*r.Float64(), Y: cy - hy*r.Float64()}, r2.Point{X: cx + hx*r.Float64(), Y: cy + hy*r.Float64()})
	if r.Intn(3) == 0 && level < 30 {
		// a rectangle one side of which is bitwise equal to the opposite side of a descendant's padded bound:
		// as closed sets they intersect, so the result has to contain that descendant
		dl := level + 1 + r.Intn(minInt(30-level, 6))
		dd := s2.CellFromPoint(gen.Near(r, cell.Center(), cellDiag(cell)*0.5*r.Float64())).ID().Parent(dl)
		if id.Contains(dd) {
			db := s2.PaddedCellFromCellID(dd, padding).Bound()
			w, h := db.X.Length()*gen.LogUniform(r, 1e-3, 30), db.Y.Length()*gen.LogUniform(r, 1e-3, 30)
			y0 := db.Y.Lo + (r.Float64()*1.6-0.8)*db.Y.Length()
			x0 := db.X.Lo + (r.Float64()*1.6-0.8)*db.X.Length()
			switch r.Intn(4) {
			case 0:
				rect = r2.Rect{X: r1.Interval{Lo: db.X.Hi, Hi: db.X.Hi + w}, Y: r1.Interval{Lo: y0, Hi: y0 + h}}
			case 1:
				rect = r2.Rect{X: r1.Interval{Lo: db.X.Lo - w, Hi: db.X.Lo}, Y: r1.Interval{Lo: y0, Hi: y0 + h}}
			case 2:
				rect = r2.Rect{X: r1.Interval{Lo: x0, Hi: x0 + w}, Y: r1.Interval{Lo: db.Y.Hi, Hi: db.Y.Hi + h}}
			default:
				rect = r2.Rect{X: r1.Interval{Lo: x0, Hi: x0 + w}, Y: r1.Interval{Lo: db.Y.Lo - h, Hi: db.Y.Lo}}
			}
			c.Count("padded.shrink_rect_touching_descendant_bound", 1)
		}
	}
	if !rect.Intersects(b) {
		return
	}
	got := pc.ShrinkToFit(rect)
	L := level + 4
	if L > 30 {
		L = 30
	}
	var D []s2.CellID
	near := false
	for d := id.ChildBeginAtLevel(L); d != id.ChildEndAtLevel(L); d = d.Next() {
		db := s2.PaddedCellFromCellID(d, padding).Bound()
		if db.Intersects(rect) {
			D = append(D, d)
		}
		// a rectangle side within rounding of a descendant's padded boundary is a tie: not asserted
		for _, e := range [][2]float64{{db.X.Lo, rect.X.Hi}, {db.X.Hi, rect.X.Lo}, {db.Y.Lo, rect.Y.Hi}, {db.Y.Hi, rect.Y.Lo}} {
			if math.Abs(e[0]-e[1]) < 1e-14 {
				near = true
			}
		}
	}
	if len(D) == 0 {
		return
	}
	c.Count("padded.shrink_checked", 1)
	sd := det(map[string]any{"rect": fmt.Sprintf("X[%.17g,%.17g] Y[%.17g,%.17g]", rect.X.Lo, rect.X.Hi, rect.Y.Lo, rect.Y.Hi), "result": got.ToToken(), "descendants_meeting_rect": len(D), "descendant_level": L})
	// safety direction, asserted also at ties: a descendant whose (closed) padded bound meets the (closed)
	// rectangle lies in the result. (Only for paddings below 0.5: the library widens the rectangle by
	// padding + 1.5*2^-52 to absorb its own rounding, and for a padding of the size of a whole face that
	// constant is itself rounded away, so an exact tie may then fall on either side. The index pads by 1e-15.)
	if near && padding >= 0.5 {
		return
	}
	// at a tie the float bound of a descendant (its uv bound + padding, rounded) may touch the rectangle while
	// the exact sum does not: only descendants whose exactly padded bound meets the rectangle are asserted
	meetsExactly := func(d s2.CellID) bool {
		if !near {
			return true
		}
		uv := s2.CellFromCellID(d).BoundUV()
		pad := ref.F(padding)
		axis := func(lo, hi, rlo, rhi float64) bool {
			l := new(big.Float).SetPrec(ref.Prec).Sub(ref.F(lo), pad)
			h := new(big.Float).SetPrec(ref.Prec).Add(ref.F(hi), pad)
			return l.Cmp(ref.F(rhi)) <= 0 && h.Cmp(ref.F(rlo)) >= 0
		}
		return axis(uv.X.Lo, uv.X.Hi, rect.X.Lo, rect.X.Hi) && axis(uv.Y.Lo, uv.Y.Hi, rect.Y.Lo, rect.Y.Hi)
	}
	for _, d := range D {
		if !got.Contains(d) && !(len(D) == 1 && d.Contains(got)) && meetsExactly(d) {
			c.Violation("PaddedCell/ShrinkToFit/misses-descendant/wrong-answer", fmt.Sprintf("ShrinkToFit returned %s, which does not contain descendant %s whose padded bound meets the rectangle", got.ToToken(), d.ToToken()), sd)
			return
		}
	}
	if near {
		return // minimality is not asserted at ties
	}
	lca := D[0]
	for _, d := range D[1:] {
		for !lca.Contains(d) {
			lca = lca.Parent(lca.Level() - 1)
		}
	}
	if len(D) > 1 && got != lca {
		c.Count("padded.shrink_multi", 1)
		c.Violation("PaddedCell/ShrinkToFit/not-smallest/wrong-answer", fmt.Sprintf("ShrinkToFit returned %s (level %d); the smallest cell containing all %d level-%d descendants that meet the rectangle is %s (level %d)", got.ToToken(), got.Level(), len(D), L, lca.ToToken(), lca.Level()), sd)
	} else if len(D) == 1 && !(D[0].Contains(got)) {
		c.Violation("PaddedCell/ShrinkToFit/not-smallest/wrong-answer", fmt.Sprintf("ShrinkToFit returned %s; only descendant %s meets the rectangle, so the answer must lie inside it", got.ToToken(), D[0].ToToken()), sd)
	}
}

func minInt(a, b int) int {
	if a < b {
		return a
	}
	return b
}
