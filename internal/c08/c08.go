// Package c08 monitors C08: closest and furthest edge queries equal an
// exhaustive scan.
package c08

import (
	"fmt"
	"math"
	"math/rand"
	"sort"
	"sync/atomic"

	"github.com/golang/geo/s1"
	"github.com/golang/geo/s2"

	"verif/internal/gen"
	"verif/internal/mon"
)

var nBrute, nOpt int64

func Run(m *mon.M) {
	m.Rule = "indexes of 1..12 mixed shapes with 1..600 edges (quick; ..5000 thorough) on both sides of the 25/30-edge brute-force thresholds, local (one cell) to global (all six faces); targets: points, edges, cells, other indexes, inside/outside/on the geometry; options: MaxResults {1,2,5,inf} x DistanceLimit {inf, equal to an edge's distance, its successor, loose, 0} x MaxError {0, small, large} x IncludeInteriors x UseBruteForce, closest and furthest. A query is non-trivial and distinct when its (index, target, options) bits are new AND the optimized (non brute force) search ran"
	m.Assumptions = []string{"the monitor's scan applies the library's public per-edge distance primitives (UpdateMinDistance/UpdateMaxDistance, Cell.DistanceToEdge/MaxDistanceToEdge, edge-pair primitives through the verif hook) to every edge of every shape; those primitives are monitored against high precision by C17/C12", "ring-parity containment for interior results"}
	s2.VerifSetCount(func(name string) {
		if name == "edgequery.optimized" {
			atomic.AddInt64(&nOpt, 1)
		} else if name == "edgequery.brute" {
			atomic.AddInt64(&nBrute, 1)
		}
	})
	maxE := m.N(600, 5000)
	m.Stream("query", m.N(30000, 600000), func(c *mon.Case) { queryCase(c, maxE) })
	m.Stream("dense", m.N(4000, 100000), denseCase)
	m.Count("path.optimized", atomic.LoadInt64(&nOpt))
	m.Count("path.brute", atomic.LoadInt64(&nBrute))
	m.Require("path.optimized", 2000)
	m.Require("path.brute", 2000)
	m.Require("target.index", 300)
	m.Require("faces.ge3", 200)
}

type world struct {
	objs  []*gen.Obj
	idx   *s2.ShapeIndex
	edges int
	kinds string
	off   int32 // id of the first shape: the number of shapes that were added before it and removed again
}

func buildWorld(r *rand.Rand, maxE int, small bool) *world {
	w := &world{idx: s2.NewShapeIndex()}
	ctr := gen.RandCenter(r)
	scale := gen.LogUniform(r, 1e-5, 1.0)
	global := r.Intn(3) == 0
	n := 1 + r.Intn(12)
	if small {
		n = 1 + r.Intn(3)
	}
	// one world in four starts with 1..3 shapes that are removed again before any query: the ids of the
	// shapes that stay then start above the number of shapes in the index
	var decoys []s2.Shape
	if r.Intn(4) == 0 {
		for k := 1 + r.Intn(3); k > 0; k-- {
			d := gen.MakeObj(r, gen.Near(r, ctr, scale*2*r.Float64()), scale*(0.2+r.Float64()), 16)
			decoys = append(decoys, d.Shape)
			w.idx.Add(d.Shape)
			w.off++
		}
		if r.Intn(2) == 0 {
			w.idx.Build()
		}
	}
	defer func() {
		for _, d := range decoys {
			w.idx.Remove(d)
		}
	}()
	for i := 0; i < n && w.edges < maxE; i++ {
		at := gen.Near(r, ctr, scale*2*r.Float64())
		if global {
			at = gen.RandCenter(r)
		}
		per := maxE
		if small {
			per = 16
		}
		o := gen.MakeObj(r, at, scale*(0.2+r.Float64()), per)
		w.objs = append(w.objs, o)
		w.idx.Add(o.Shape)
		w.edges += o.Shape.NumEdges()
		w.kinds += o.Kind + " "
	}
	return w
}

type target struct {
	kind string
	p    s2.Point
	a, b s2.Point
	cell s2.Cell
	w    *world
	reps []s2.Point // representative points used for interior results
}

type res struct {
	d     s1.ChordAngle
	shape int32
	edge  int32
}

func less(furthest bool, x, y res) bool {
	if x.d != y.d {
		if furthest {
			return x.d > y.d
		}
		return x.d < y.d
	}
	if x.shape != y.shape {
		return x.shape < y.shape
	}
	return x.edge < y.edge
}

// edgeDist: distance from the target to one edge by the per-edge primitive.
func (t *target) edgeDist(e s2.Edge, furthest bool, interiorsOfTarget bool) s1.ChordAngle {
	switch t.kind {
	case "point":
		if furthest {
			d, _ := s2.UpdateMaxDistance(t.p, e.V0, e.V1, s1.NegativeChordAngle)
			return d
		}
		d, _ := s2.UpdateMinDistance(t.p, e.V0, e.V1, s1.InfChordAngle())
		return d
	case "edge":
		if furthest {
			d, _ := s2.VerifUpdateEdgePairMaxDistance(t.a, t.b, e.V0, e.V1, s1.NegativeChordAngle)
			return d
		}
		d, _ := s2.VerifUpdateEdgePairMinDistance(t.a, t.b, e.V0, e.V1, s1.InfChordAngle())
		return d
	case "cell":
		if furthest {
			return t.cell.MaxDistanceToEdge(e.V0, e.V1)
		}
		return t.cell.DistanceToEdge(e.V0, e.V1)
	}
	// index target: optimum over the target's edges, zero if the edge's midpoint is inside a target polygon
	best := s1.InfChordAngle()
	if furthest {
		best = s1.NegativeChordAngle
	}
	mid := s2.Point{Vector: e.V0.Add(e.V1.Vector).Normalize()}
	for _, o := range t.w.objs {
		if interiorsOfTarget && o.Dim == 2 {
			q := mid
			if furthest {
				q = s2.Point{Vector: mid.Mul(-1)}
			}
			if o.ContainsInterior(q) {
				if furthest {
					return s1.StraightChordAngle
				}
				return 0
			}
		}
		for k := 0; k < o.Shape.NumEdges(); k++ {
			te := o.Shape.Edge(k)
			if furthest {
				if d, ok := s2.VerifUpdateEdgePairMaxDistance(te.V0, te.V1, e.V0, e.V1, best); ok {
					best = d
				}
			} else if d, ok := s2.VerifUpdateEdgePairMinDistance(te.V0, te.V1, e.V0, e.V1, best); ok {
				best = d
			}
		}
	}
	return best
}

// edgeLess: the threshold form of the per-edge primitive (non-index targets).
func (t *target) edgeLess(e s2.Edge, furthest bool, l s1.ChordAngle) bool {
	switch t.kind {
	case "point":
		if furthest {
			_, ok := s2.UpdateMaxDistance(t.p, e.V0, e.V1, l)
			return ok
		}
		_, ok := s2.UpdateMinDistance(t.p, e.V0, e.V1, l)
		return ok
	case "edge":
		if furthest {
			_, ok := s2.VerifUpdateEdgePairMaxDistance(t.a, t.b, e.V0, e.V1, l)
			return ok
		}
		_, ok := s2.VerifUpdateEdgePairMinDistance(t.a, t.b, e.V0, e.V1, l)
		return ok
	case "cell":
		if furthest {
			return t.cell.MaxDistanceToEdge(e.V0, e.V1) > l
		}
		return t.cell.DistanceToEdge(e.V0, e.V1) < l
	}
	return false
}

func pickTarget(r *rand.Rand, w *world, maxE int) *target {
	var allV []s2.Point
	for _, o := range w.objs {
		allV = append(allV, o.Vertices...)
	}
	anyPoint := func() s2.Point {
		switch r.Intn(5) {
		case 0:
			return allV[r.Intn(len(allV))] // on the geometry
		case 1:
			return gen.Near(r, allV[r.Intn(len(allV))], gen.LogUniform(r, 1e-12, 1))
		case 2:
			o := w.objs[r.Intn(len(w.objs))]
			if len(o.Loops) > 0 { // inside/near a polygon
				l := o.Loops[len(o.Loops)-1]
				return s2.Point{Vector: l[0].Add(l[len(l)/2].Vector).Add(l[len(l)/3].Vector).Normalize()}
			}
			return gen.Uniform(r)
		case 3:
			return s2.Point{Vector: allV[r.Intn(len(allV))].Mul(-1)} // antipodal to the geometry
		default:
			return gen.Uniform(r)
		}
	}
	t := &target{}
	switch r.Intn(6) {
	case 0, 1:
		t.kind, t.p = "point", anyPoint()
		t.reps = []s2.Point{t.p}
	case 2, 3:
		t.kind = "edge"
		t.a = anyPoint()
		t.b = gen.Near(r, t.a, gen.LogUniform(r, 1e-9, 2))
		if r.Intn(4) == 0 {
			t.b = anyPoint()
		}
		if t.a.Vector.Add(t.b.Vector).Norm2() < 1e-6 {
			t.b = gen.Near(r, t.a, 0.1)
		}
		t.reps = []s2.Point{{Vector: t.a.Add(t.b.Vector).Normalize()}}
	case 4:
		t.kind = "cell"
		t.cell = s2.CellFromCellID(s2.CellFromPoint(anyPoint()).ID().Parent(r.Intn(31)))
		t.reps = []s2.Point{t.cell.Center()}
	default:
		t.kind = "index"
		t.w = buildWorld(r, 40, true)
		if r.Intn(2) == 0 { // overlapping the queried geometry
			t.w = &world{idx: s2.NewShapeIndex()}
			o := gen.MakeObj(r, anyPoint(), gen.LogUniform(r, 1e-5, 0.5), 16)
			t.w.objs = []*gen.Obj{o}
			t.w.idx.Add(o.Shape)
			t.w.edges = o.Shape.NumEdges()
			t.w.kinds = o.Kind
		}
		for _, o := range t.w.objs {
			for ci := 0; ci < o.Shape.NumChains(); ci++ {
				if ch := o.Shape.Chain(ci); ch.Length > 0 {
					t.reps = append(t.reps, o.Shape.Edge(ch.Start).V0)
				}
			}
		}
	}
	return t
}

func chordAdd(a, b s1.ChordAngle) s1.ChordAngle { return a.Add(b) }

func queryCase(c *mon.Case, maxE int) {
	r := c.R
	// index size on both sides of the thresholds
	lim := maxE
	switch r.Intn(4) {
	case 0:
		lim = 20 + r.Intn(20) // 20..39 edges: around 25/30
	case 1:
		lim = 1 + r.Intn(30)
	}
	w := buildWorld(r, lim, lim < 40)
	if w.edges == 0 {
		return
	}
	w.idx.Build()
	faces := map[int]bool{}
	for _, id := range w.idx.VerifCells() {
		faces[id.Face()] = true
	}
	if len(faces) >= 3 {
		c.Count("faces.ge3", 1)
	}
	for q := 0; q < 4; q++ {
		oneQuery(c, r, w, len(faces))
	}
}

// denseCase: a region densely filled with short edges, an extended target in
// the middle and a distance limit of the order of the target's own radius, so
// that the boundary of the search disc always cuts through indexed edges.
func denseCase(c *mon.Case) {
	r := c.R
	ctr := gen.RandCenter(r)
	R := gen.LogUniform(r, 1e-4, 0.6)
	w := &world{idx: s2.NewShapeIndex()}
	nl := 2 + r.Intn(5)
	for i := 0; i < nl; i++ {
		n := 60 + r.Intn(240)
		vs := []s2.Point{gen.Near(r, ctr, R*r.Float64())}
		for len(vs) < n {
			nx := gen.Near(r, vs[len(vs)-1], R/8*(0.3+r.Float64()))
			if nx.Distance(ctr).Radians() > R*1.3 { // stay in the neighbourhood
				nx = gen.Near(r, ctr, R*r.Float64())
			}
			vs = append(vs, nx)
		}
		o := &gen.Obj{Shape: s2.LaxPolylineFromPoints(append([]s2.Point(nil), vs...)), Kind: "LaxPolyline(dense)", Dim: 1, Vertices: vs}
		if r.Intn(3) == 0 {
			pv := s2.PointVector(append([]s2.Point(nil), vs...))
			o = &gen.Obj{Shape: &pv, Kind: "PointVector(dense)", Dim: 0, Vertices: vs}
		}
		w.objs = append(w.objs, o)
		w.idx.Add(o.Shape)
		w.edges += o.Shape.NumEdges()
		w.kinds += o.Kind + " "
	}
	w.idx.Build()
	c.Count("dense.worlds", 1)
	for q := 0; q < 3; q++ {
		t := &target{}
		tr := R * gen.LogUniform(r, 0.02, 0.5) // target radius
		at := gen.Near(r, ctr, R*0.5*r.Float64())
		if r.Intn(2) == 0 { // centre of a cell: narrow covering cells
			at = s2.CellFromCellID(s2.CellFromPoint(at).ID().Parent(s2.AvgDiagMetric.ClosestLevel(tr * 4))).Center()
		}
		switch r.Intn(3) {
		case 0:
			t.kind = "edge"
			t.a = gen.Near(r, at, tr)
			t.b = s2.Point{Vector: at.Mul(2 * at.Dot(t.a.Vector)).Sub(t.a.Vector).Normalize()} // reflection of a through the centre
			t.reps = []s2.Point{at}
		case 1:
			t.kind = "cell"
			t.cell = s2.CellFromCellID(s2.CellFromPoint(at).ID().Parent(s2.AvgDiagMetric.ClosestLevel(tr * 2)))
			t.reps = []s2.Point{t.cell.Center()}
		default:
			t.kind = "index"
			t.w = &world{idx: s2.NewShapeIndex()}
			vs := []s2.Point{gen.Near(r, at, tr), gen.Near(r, at, tr), gen.Near(r, at, tr)}
			o := &gen.Obj{Shape: s2.LaxPolylineFromPoints(vs), Kind: "LaxPolyline", Dim: 1, Vertices: vs}
			t.w.objs, t.w.edges, t.w.kinds = []*gen.Obj{o}, 2, o.Kind
			t.w.idx.Add(o.Shape)
			t.reps = []s2.Point{vs[0]}
		}
		lim := s1.ChordAngleFromAngle(s1.Angle(tr * gen.LogUniform(r, 0.2, 3)))
		runQuery(c, r, w, 1, t, &fixedOpts{limit: lim, limKind: "of-the-order-of-the-target-radius"})
	}
}

type fixedOpts struct {
	limit   s1.ChordAngle
	limKind string
}

func oneQuery(c *mon.Case, r *rand.Rand, w *world, nfaces int) {
	runQuery(c, r, w, nfaces, pickTarget(r, w, 40), nil)
}

func runQuery(c *mon.Case, r *rand.Rand, w *world, nfaces int, t *target, fo *fixedOpts) {
	furthest := r.Intn(3) == 0
	if fo != nil {
		furthest = false
	}
	if t.kind == "index" {
		c.Count("target.index", 1)
	}
	// scan
	interiors := r.Intn(2) == 0
	var all []res
	for si, o := range w.objs {
		for e := 0; e < o.Shape.NumEdges(); e++ {
			all = append(all, res{t.edgeDist(o.Shape.Edge(e), furthest, true), int32(si) + w.off, int32(e)})
		}
	}
	zero := s1.ChordAngle(0)
	if furthest {
		zero = s1.StraightChordAngle
	}
	var interiorShapes []int32
	if interiors {
		for si, o := range w.objs {
			if o.Dim != 2 {
				continue
			}
			for _, rp := range t.reps {
				q := rp
				if furthest {
					q = s2.Point{Vector: rp.Mul(-1)}
				}
				if o.ContainsInterior(q) {
					interiorShapes = append(interiorShapes, int32(si)+w.off)
					break
				}
			}
		}
	}
	sort.Slice(all, func(i, j int) bool { return less(furthest, all[i], all[j]) })
	// options
	maxResults := []int{1, 2, 5, math.MaxInt32}[r.Intn(4)]
	limit := s1.InfChordAngle()
	if furthest {
		limit = s1.NegativeChordAngle
	}
	limKind := "inf"
	switch r.Intn(6) {
	case 0:
		k := r.Intn(len(all))
		limit, limKind = all[k].d, "equal-to-an-edge-distance"
	case 1:
		k := r.Intn(len(all))
		if furthest {
			limit = all[k].d.Predecessor()
		} else {
			limit = all[k].d.Successor()
		}
		limKind = "just-beyond-an-edge-distance"
	case 2:
		limit, limKind = s1.ChordAngle(r.Float64()*4), "random"
	case 3:
		limit, limKind = zero, "zero"
	}
	if fo != nil {
		limit, limKind, maxResults = fo.limit, fo.limKind, math.MaxInt32
	}
	maxErr := s1.ChordAngle(0)
	switch r.Intn(4) {
	case 0:
		maxErr = s1.ChordAngleFromAngle(s1.Angle(gen.LogUniform(r, 1e-6, 0.01)))
	case 1:
		maxErr = s1.ChordAngleFromAngle(s1.Angle(0.1 + r.Float64()))
	}
	brute := r.Intn(4) == 0
	within := func(d s1.ChordAngle) bool {
		if furthest {
			return d > limit
		}
		return d < limit
	}
	// A distance within 4 ulps of the limit is a tie: the per-edge primitive evaluated with a finite limit
	// may take its endpoint branch instead of its interior branch and differ from the unlimited evaluation
	// by an ulp (that consistency is C17's subject), so membership of tie edges is not asserted here.
	tie := func(d s1.ChordAngle) bool {
		a, b := float64(d), float64(limit)
		if math.IsInf(b, 0) || b < 0 {
			return false
		}
		return math.Abs(a-b) <= 4.5e-16*math.Max(math.Abs(a), math.Abs(b))
	}
	// expected list
	var exp []res
	nTie := 0
	if within(zero) || limKind == "inf" {
		for _, s := range interiorShapes {
			exp = append(exp, res{zero, s, -1})
		}
	}
	for _, x := range all {
		if tie(x.d) {
			exp = append(exp, x)
			nTie++
		} else if within(x.d) {
			exp = append(exp, x)
		}
	}
	if limit == zero {
		exp = nil // the query returns immediately for a zero limit
	}
	sort.Slice(exp, func(i, j int) bool { return less(furthest, exp[i], exp[j]) })

	mkOpts := func() *s2.EdgeQueryOptions {
		var o *s2.EdgeQueryOptions
		if furthest {
			o = s2.NewFurthestEdgeQueryOptions()
		} else {
			o = s2.NewClosestEdgeQueryOptions()
		}
		return o.MaxResults(maxResults).DistanceLimit(limit).MaxError(maxErr).IncludeInteriors(interiors).UseBruteForce(brute)
	}
	mkQuery := func(o *s2.EdgeQueryOptions) *s2.EdgeQuery {
		if furthest {
			return s2.NewFurthestEdgeQuery(w.idx, o)
		}
		return s2.NewClosestEdgeQuery(w.idx, o)
	}
	find := func(q *s2.EdgeQuery) []s2.EdgeQueryResult {
		switch t.kind {
		case "point":
			if furthest {
				return q.FindEdges(s2.NewMaxDistanceToPointTarget(t.p))
			}
			return q.FindEdges(s2.NewMinDistanceToPointTarget(t.p))
		case "edge":
			if furthest {
				return q.FindEdges(s2.NewMaxDistanceToEdgeTarget(s2.Edge{V0: t.a, V1: t.b}))
			}
			return q.FindEdges(s2.NewMinDistanceToEdgeTarget(s2.Edge{V0: t.a, V1: t.b}))
		case "cell":
			if furthest {
				return q.FindEdges(s2.NewMaxDistanceToCellTarget(t.cell))
			}
			return q.FindEdges(s2.NewMinDistanceToCellTarget(t.cell))
		}
		if furthest {
			return q.FindEdges(s2.NewMaxDistanceToShapeIndexTarget(t.w.idx))
		}
		return q.FindEdges(s2.NewMinDistanceToShapeIndexTarget(t.w.idx))
	}
	dist := func(q *s2.EdgeQuery) s1.ChordAngle {
		switch t.kind {
		case "point":
			if furthest {
				return q.Distance(s2.NewMaxDistanceToPointTarget(t.p))
			}
			return q.Distance(s2.NewMinDistanceToPointTarget(t.p))
		case "edge":
			if furthest {
				return q.Distance(s2.NewMaxDistanceToEdgeTarget(s2.Edge{V0: t.a, V1: t.b}))
			}
			return q.Distance(s2.NewMinDistanceToEdgeTarget(s2.Edge{V0: t.a, V1: t.b}))
		case "cell":
			if furthest {
				return q.Distance(s2.NewMaxDistanceToCellTarget(t.cell))
			}
			return q.Distance(s2.NewMinDistanceToCellTarget(t.cell))
		}
		if furthest {
			return q.Distance(s2.NewMaxDistanceToShapeIndexTarget(t.w.idx))
		}
		return q.Distance(s2.NewMinDistanceToShapeIndexTarget(t.w.idx))
	}
	thresh := func(q *s2.EdgeQuery, l s1.ChordAngle, conservative bool) bool {
		var tg interface{}
		switch t.kind {
		case "point":
			if furthest {
				tg = s2.NewMaxDistanceToPointTarget(t.p)
			} else {
				tg = s2.NewMinDistanceToPointTarget(t.p)
			}
		case "edge":
			if furthest {
				tg = s2.NewMaxDistanceToEdgeTarget(s2.Edge{V0: t.a, V1: t.b})
			} else {
				tg = s2.NewMinDistanceToEdgeTarget(s2.Edge{V0: t.a, V1: t.b})
			}
		case "cell":
			if furthest {
				tg = s2.NewMaxDistanceToCellTarget(t.cell)
			} else {
				tg = s2.NewMinDistanceToCellTarget(t.cell)
			}
		default:
			if furthest {
				tg = s2.NewMaxDistanceToShapeIndexTarget(t.w.idx)
			} else {
				tg = s2.NewMinDistanceToShapeIndexTarget(t.w.idx)
			}
		}
		return callThreshold(q, tg, l, furthest, conservative)
	}

	tdesc := map[string]any{"kind": t.kind}
	switch t.kind {
	case "point":
		tdesc["p"] = gen.Hex(t.p)
	case "edge":
		tdesc["a"], tdesc["b"] = gen.Hex(t.a), gen.Hex(t.b)
	case "cell":
		tdesc["cell"] = t.cell.ID().ToToken()
	default:
		tdesc["shapes"], tdesc["edges"] = t.w.kinds, t.w.edges
	}
	det := func(extra map[string]any) any {
		d := map[string]any{"index_shapes": w.kinds, "index_edges": w.edges, "faces": nfaces, "target": tdesc, "furthest": furthest,
			"max_results": maxResults, "limit": fmt.Sprintf("%x (%s)", float64(limit), limKind), "max_error": fmt.Sprintf("%x", float64(maxErr)), "include_interiors": interiors, "use_brute_force": brute,
			"scan_best": fmt.Sprintf("%x", float64(all[0].d)), "expected_results": len(exp)}
		for k, v := range extra {
			d[k] = v
		}
		return d
	}
	before := atomic.LoadInt64(&nOpt)
	q0 := mkQuery(mkOpts())
	got := find(q0)
	usedOpt := atomic.LoadInt64(&nOpt) > before
	if c.I < 3 {
		c.Sample(det(map[string]any{"results": len(got)}))
	}
	c.Count("queries", 1)
	if usedOpt {
		c.Distinct(uint64(c.I), uint64(len(got)), math.Float64bits(float64(limit)), uint64(maxResults))
	}
	tag := "closest"
	if furthest {
		tag = "furthest"
	}
	tag += "/" + t.kind
	// the same question put again to the same query object must again give the k best distances (which of
	// several equally distant edges or containing shapes is named may legitimately differ for C08; that the
	// answer is a function of geometry and options only is C13's subject)
	if again := find(q0); len(again) != len(got) {
		c.Violation(tag+"/FindEdges/second-call-on-same-query-differs/wrong-answer", fmt.Sprintf("FindEdges returned %d results, the same call repeated on the same query object %d", len(got), len(again)), det(nil))
	} else {
		for i := range got {
			if got[i].Distance() != again[i].Distance() {
				c.Violation(tag+"/FindEdges/second-call-on-same-query-differs/wrong-answer", fmt.Sprintf("the distance of result %d differs between two identical calls on one query object", i), det(nil))
				break
			}
		}
	}
	c.Count("queries.repeated_on_same_object", 1)
	scan := map[[2]int32]s1.ChordAngle{}
	for _, x := range all {
		scan[[2]int32{x.shape, x.edge}] = x.d
	}
	isInterior := map[int32]bool{}
	for _, s := range interiorShapes {
		isInterior[s] = true
	}
	seen := map[[2]int32]bool{}
	var gr []res
	for i, g := range got {
		x := res{g.Distance(), g.ShapeID(), g.EdgeID()}
		gr = append(gr, x)
		key := [2]int32{x.shape, x.edge}
		if seen[key] {
			c.Violation(tag+"/FindEdges/duplicate-result/wrong-answer", fmt.Sprintf("result (%d,%d) appears twice", x.shape, x.edge), det(nil))
		}
		seen[key] = true
		if i > 0 && less(furthest, x, gr[i-1]) {
			c.Violation(tag+"/FindEdges/not-sorted/wrong-answer", "results are not sorted by distance", det(nil))
		}
		if x.edge >= 0 {
			sd, ok := scan[key]
			if !ok {
				c.Violation(tag+"/FindEdges/unknown-edge/wrong-answer", fmt.Sprintf("result names edge (%d,%d) that does not exist", x.shape, x.edge), det(nil))
			} else if sd != x.d && t.kind != "index" {
				c.Violation(tag+"/FindEdges/distance-differs-from-scan/wrong-answer", fmt.Sprintf("edge (%d,%d) reported at %x, the scan computes %x", x.shape, x.edge, float64(x.d), float64(sd)), det(nil))
			}
			if !within(x.d) && !tie(x.d) {
				c.Violation(tag+"/FindEdges/beyond-distance-limit/wrong-answer", fmt.Sprintf("result at %x does not satisfy the distance limit %x", float64(x.d), float64(limit)), det(nil))
			}
		} else if !isInterior[x.shape] {
			c.Violation(tag+"/FindEdges/spurious-interior-result/wrong-answer", fmt.Sprintf("interior result for shape %d, which does not contain the target's representative point", x.shape), det(nil))
		}
	}
	if len(got) > maxResults {
		c.Violation(tag+"/FindEdges/more-than-MaxResults/wrong-answer", fmt.Sprintf("%d results with MaxResults=%d", len(got), maxResults), det(nil))
	}
	wantN, wantLo := len(exp), len(exp)-nTie
	if wantN > maxResults {
		wantN = maxResults
	}
	if wantLo > maxResults {
		wantLo = maxResults
	}
	countOK := func(n int) bool { return n >= wantLo && n <= wantN }
	indexTargetTol := t.kind == "index" // distances through a nested query: compare with a 1e-13 tolerance
	close := func(a, b s1.ChordAngle) bool {
		if a == b {
			return true
		}
		fa, fb := float64(a), float64(b)
		if math.Abs(fa-fb) <= 4.5e-16*math.Max(math.Abs(fa), math.Abs(fb)) {
			return true // ulp-level difference between limited and unlimited evaluation of one primitive
		}
		return indexTargetTol && math.Abs(fa-fb) <= 1e-13
	}
	if maxErr == 0 || (maxResults == math.MaxInt32 && t.kind != "index") {
		if !countOK(len(got)) {
			c.Violation(tag+"/FindEdges/result-count/wrong-answer", fmt.Sprintf("%d results, the scan finds %d (limit/MaxResults applied)", len(got), wantN), det(map[string]any{"got": fmt.Sprint(gr), "want_head": fmt.Sprint(exp[:minInt(len(exp), 6)])}))
		} else {
			for i := range gr {
				if !close(gr[i].d, exp[i].d) {
					c.Violation(tag+"/FindEdges/kth-distance-differs/wrong-answer", fmt.Sprintf("result %d is at distance %x, the %d-th best of the scan is %x", i, float64(gr[i].d), i, float64(exp[i].d)), det(map[string]any{"got": fmt.Sprint(gr[:minInt(len(gr), 6)]), "want_head": fmt.Sprint(exp[:minInt(len(exp), 6)])}))
					break
				}
			}
		}
	} else {
		// MaxError > 0: each reported distance within MaxError of the true i-th optimum, same count
		if !countOK(len(got)) {
			c.Violation(tag+"/FindEdges/result-count-with-MaxError/wrong-answer", fmt.Sprintf("%d results, the scan finds %d", len(got), wantN), det(map[string]any{"got": fmt.Sprint(gr)}))
		}
		for i := range gr {
			if i >= len(exp) {
				break
			}
			bad := false
			if furthest {
				bad = float64(chordAdd(gr[i].d, maxErr)) < float64(exp[i].d)-1e-13
			} else {
				bad = float64(gr[i].d) > float64(chordAdd(exp[i].d, maxErr))+1e-13
			}
			if bad {
				c.Violation(tag+"/FindEdges/beyond-MaxError/wrong-answer", fmt.Sprintf("result %d at %x is more than MaxError %x from the true optimum %x", i, float64(gr[i].d), float64(maxErr), float64(exp[i].d)), det(nil))
				break
			}
		}
	}
	// Distance() and threshold forms, each on a fresh query (history dependence is C13's subject)
	if limKind == "inf" && maxErr == 0 {
		d := dist(mkQuery(mkOpts()))
		want := s1.InfChordAngle()
		if furthest {
			want = s1.NegativeChordAngle
		}
		if len(exp) > 0 {
			want = exp[0].d
		}
		if !close(d, want) {
			c.Violation(tag+"/Distance/wrong-answer", fmt.Sprintf("Distance=%x, the scan's optimum is %x", float64(d), float64(want)), det(nil))
		}
		if interiors && len(interiorShapes) > 0 && d != zero {
			c.Violation(tag+"/Distance/target-inside-polygon-not-zero/wrong-answer", "IncludeInteriors and the target is inside an indexed polygon, but the distance is not zero", det(nil))
		}
		// thresholds at, just below and just above the optimum
		if len(exp) > 0 {
			for _, l := range []s1.ChordAngle{want, want.Successor(), want.Predecessor(), s1.ChordAngle(r.Float64() * 4)} {
				if l < 0 || l > 4 {
					continue
				}
				wantLess := want < l
				if furthest {
					wantLess = want > l
				}
				if l == zero {
					wantLess = false
				}
				if indexTargetTol && math.Abs(float64(want)-float64(l)) <= 1e-13 {
					continue
				}
				if close(want, l) && want != l { // within the primitive's own ulp ambiguity
					continue
				}
				if want == l && !indexTargetTol {
					// exact tie: scanning every edge with the threshold form of the per-edge primitive decides
					wantLess = false
					for _, o := range w.objs {
						for e := 0; e < o.Shape.NumEdges() && !wantLess; e++ {
							wantLess = t.edgeLess(o.Shape.Edge(e), furthest, l)
						}
					}
				}
				if g := thresh(mkQuery(mkOpts()), l, false); g != wantLess {
					name := "IsDistanceLess"
					if furthest {
						name = "IsDistanceGreater"
					}
					c.Violation(tag+"/"+name+"/wrong-answer", fmt.Sprintf("%s(%x)=%v, the scan's optimum is %x", name, float64(l), g, float64(want)), det(nil))
				}
				// conservative forms are the plain forms with the limit moved by the documented error
				exl := l.Expanded(s2.VerifMinUpdateDistanceMaxError(l))
				if furthest {
					exl = l.Expanded(-s2.VerifMinUpdateDistanceMaxError(l))
				}
				wc := want < exl
				if furthest {
					wc = want > exl
				}
				if exl == zero {
					wc = false
				}
				if indexTargetTol && math.Abs(float64(want)-float64(exl)) <= 1e-13 {
					continue
				}
				if close(want, exl) {
					continue
				}
				if g := thresh(mkQuery(mkOpts()), l, true); g != wc {
					c.Violation(tag+"/IsConservativeDistance/wrong-answer", fmt.Sprintf("conservative threshold form(%x)=%v, the scan's optimum is %x (expanded limit %x)", float64(l), g, float64(want), float64(exl)), det(nil))
				}
			}
		}
	}
}

func minInt(a, b int) int {
	if a < b {
		return a
	}
	return b
}

// callThreshold dispatches on the concrete target type (the library's target
// interface is unexported).
func callThreshold(q *s2.EdgeQuery, tg interface{}, l s1.ChordAngle, furthest, conservative bool) bool {
	switch x := tg.(type) {
	case *s2.MinDistanceToPointTarget:
		if conservative {
			return q.IsConservativeDistanceLessOrEqual(x, l)
		}
		return q.IsDistanceLess(x, l)
	case *s2.MinDistanceToEdgeTarget:
		if conservative {
			return q.IsConservativeDistanceLessOrEqual(x, l)
		}
		return q.IsDistanceLess(x, l)
	case *s2.MinDistanceToCellTarget:
		if conservative {
			return q.IsConservativeDistanceLessOrEqual(x, l)
		}
		return q.IsDistanceLess(x, l)
	case *s2.MinDistanceToShapeIndexTarget:
		if conservative {
			return q.IsConservativeDistanceLessOrEqual(x, l)
		}
		return q.IsDistanceLess(x, l)
	case *s2.MaxDistanceToPointTarget:
		if conservative {
			return q.IsConservativeDistanceGreaterOrEqual(x, l)
		}
		return q.IsDistanceGreater(x, l)
	case *s2.MaxDistanceToEdgeTarget:
		if conservative {
			return q.IsConservativeDistanceGreaterOrEqual(x, l)
		}
		return q.IsDistanceGreater(x, l)
	case *s2.MaxDistanceToCellTarget:
		if conservative {
			return q.IsConservativeDistanceGreaterOrEqual(x, l)
		}
		return q.IsDistanceGreater(x, l)
	case *s2.MaxDistanceToShapeIndexTarget:
		if conservative {
			return q.IsConservativeDistanceGreaterOrEqual(x, l)
		}
		return q.IsDistanceGreater(x, l)
	}
	panic("unknown target type")
}
