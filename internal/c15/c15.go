// Package c15 monitors C15: decoding arbitrary bytes is total — an error or a
// usable value, never a crash.
package c15

import (
	"bytes"
	"encoding/binary"
	"errors"
	"fmt"
	"io"
	"math"
	"math/rand"
	"runtime/metrics"

	"github.com/golang/geo/r3"
	"github.com/golang/geo/s1"
	"github.com/golang/geo/s2"

	"verif/internal/gen"
	"verif/internal/mon"
)

const stream = "bytes"

// limits documented in the library
const (
	maxVertices = 50000000
	maxLoops    = 10000000
	maxCells    = 1000000
)

func Run(m *mon.M) {
	m.Rule = "byte strings: valid encodings of every type and format version (points, caps, rects, cell ids, cells, cell unions, polylines, loops, polygons lossless v1 and compressed v4), then truncated at every offset, bit-flipped, count/length fields rewritten to {0,1,2,1000,1e5,limit+1,2^31-1,2^31,2^32-1,2^63,2^64-1}, varints rewritten at random offsets, spliced and purely random; an input is non-trivial and distinct when its bytes are new AND it is not accepted unchanged (i.e. it was mutated)"
	m.Assumptions = []string{"each input is decoded in a child process (RLIMIT_AS 8 GiB, RLIMIT_CPU 900 s per batch of inputs) that journals the input index before the call; in-process panics are recovered and attributed to the innermost library frame; allocation per call from runtime/metrics"}
	total := int64(m.N(200000, 8000000))
	if st, idx, ok := m.ReplayIndex(); ok {
		if st != stream {
			return
		}
		runChildren(m, idx, idx+1, 1)
		return
	}
	runChildren(m, 0, total, 16)
	m.Require("inputs.decoded_ok", 2000)
	m.Require("inputs.rejected", 20000)
	m.Require("inputs.over_limit_count", 2000)
	m.Require("inputs.used_after_decode", 2000)
	m.Require("inputs.decoded_into_used_receiver", 5000)
}

func runChildren(m *mon.M, lo, hi int64, par int) {
	mon.RunChildren(m, "c15", stream, lo, hi, par, func(d mon.Death) (string, string, any) {
		kind, input := inputFor(m.Seed, d.Index)
		sev := "fatal"
		if d.Kind == "killed" {
			sev = "hang-or-killed"
		}
		return kind + "/Decode/" + sev + "/" + mon.Shorten(d.Stderr), fmt.Sprintf("the process decoding this input died (%s): %s", d.Exit, d.Stderr),
			map[string]any{"decoder": kind, "input_hex": hexb(input), "input_len": len(input), "child": d.Exit, "stderr_head": d.Stderr}
	})
}

func hexb(b []byte) string {
	if len(b) > 400 {
		return fmt.Sprintf("%x...(%d bytes)", b[:400], len(b))
	}
	return fmt.Sprintf("%x", b)
}

// Worker is the child entry point: mon worker c15 <lo> <hi> <out> <journal>.
func Worker(args []string) {
	mon.ChildMain("C15", stream, args, 8<<30, 900, oneInput)
}

// ---------- input generation ----------

var kinds = []string{"Point", "Cap", "Rect", "CellID", "Cell", "CellUnion", "Polyline", "Loop", "PolygonLossless", "PolygonCompressed"}

func enc(f func(*bytes.Buffer) error) []byte {
	var b bytes.Buffer
	f(&b)
	return b.Bytes()
}

// foreignLossless writes the lossless (version 1) polygon format by hand, as another implementation would:
// loops with explicit origin-inside flags, depths and bounds. This reaches encodings the library's own
// Encode never emits (e.g. the full or the empty polygon in the lossless format).
func foreignLossless(loops [][]s2.Point, originInside []bool, depth []int32, hasHoles bool, bound s2.Rect) []byte {
	var b bytes.Buffer
	w := func(v any) { binary.Write(&b, binary.LittleEndian, v) }
	rect := func(rc s2.Rect) { w(int8(1)); w(rc.Lat.Lo); w(rc.Lat.Hi); w(rc.Lng.Lo); w(rc.Lng.Hi) }
	w(int8(1))
	w(true)
	w(hasHoles)
	w(uint32(len(loops)))
	for i, l := range loops {
		w(int8(1))
		w(uint32(len(l)))
		for _, v := range l {
			w(v.X)
			w(v.Y)
			w(v.Z)
		}
		w(originInside[i])
		w(depth[i])
		if len(l) == 0 {
			rect(s2.EmptyRect())
		} else {
			rect(s2.LoopFromPoints(append([]s2.Point(nil), l...)).RectBound())
		}
	}
	rect(bound)
	return b.Bytes()
}

// manyLoopPolygon: 13..24 disjoint small loops (chain lookups switch data structure above 12 loops).
func manyLoopPolygon(r *rand.Rand, snapped bool) *s2.Polygon {
	ls := gen.Islands(r, gen.RandCenter(r), gen.LogUniform(r, 1e-2, 0.8), 13+r.Intn(12))
	var loops []*s2.Loop
	for _, l := range ls {
		if snapped {
			if sv, ok := gen.SnapToLevel(l, 30); ok {
				l = sv
			}
		}
		loops = append(loops, s2.LoopFromPoints(append([]s2.Point(nil), l...)))
	}
	return s2.PolygonFromLoops(loops)
}

func validEncoding(r *rand.Rand, kind string) []byte {
	pt := gen.Uniform(r)
	if kind == "Loop" && r.Intn(8) == 0 {
		l := s2.FullLoop()
		if r.Intn(2) == 0 {
			l = s2.EmptyLoop()
		}
		return enc(func(b *bytes.Buffer) error { return l.Encode(b) })
	}
	if kind == "PolygonLossless" && r.Intn(5) == 0 {
		full, empty := s2.Point{Vector: r3.Vector{Z: -1}}, s2.Point{Vector: r3.Vector{Z: 1}}
		switch r.Intn(6) {
		case 4, 5: // a loop that declares zero vertices next to an ordinary one (Loop.decode allows it)
			if r.Intn(2) == 0 {
				// more than 12 loops (the polygon then keeps a cumulative edge table) with one or two zero-vertex
				// loops somewhere between them
				isl := gen.Islands(r, gen.RandCenter(r), gen.LogUniform(r, 1e-2, 0.8), 13+r.Intn(8))
				var ls [][]s2.Point
				var oi []bool
				var dp []int32
				bound := s2.EmptyRect()
				holes := 1 + r.Intn(2)
				at := map[int]bool{r.Intn(len(isl)): true, r.Intn(len(isl) + 1): holes == 2}
				for i := 0; i <= len(isl); i++ {
					if at[i] {
						ls, oi, dp = append(ls, []s2.Point{}), append(oi, r.Intn(2) == 0), append(dp, 0)
					}
					if i < len(isl) {
						l := s2.LoopFromPoints(append([]s2.Point(nil), isl[i]...))
						ls, oi, dp = append(ls, isl[i]), append(oi, l.ContainsOrigin()), append(dp, 0)
						bound = bound.Union(l.RectBound())
					}
				}
				return foreignLossless(ls, oi, dp, false, bound)
			}
			sp := gen.StarLoop(r, gen.RandCenter(r), 3+r.Intn(6), 0.1, 0.2)
			ls, oi, dp := [][]s2.Point{{}, sp.Vs}, []bool{r.Intn(2) == 0, s2.LoopFromPoints(sp.Vs).ContainsOrigin()}, []int32{0, 0}
			if r.Intn(2) == 0 {
				ls, oi, dp = [][]s2.Point{sp.Vs, {}}, []bool{oi[1], oi[0]}, []int32{0, int32(r.Intn(2))}
			}
			return foreignLossless(ls, oi, dp, false, s2.LoopFromPoints(sp.Vs).RectBound())
		case 0:
			return foreignLossless([][]s2.Point{{full}}, []bool{true}, []int32{0}, false, s2.FullRect())
		case 1:
			return foreignLossless([][]s2.Point{{empty}}, []bool{false}, []int32{0}, false, s2.EmptyRect())
		case 2:
			return foreignLossless(nil, nil, nil, false, s2.EmptyRect())
		default:
			sp := gen.StarLoop(r, gen.RandCenter(r), 3+r.Intn(6), 0.1, 0.2)
			return foreignLossless([][]s2.Point{sp.Vs}, []bool{s2.LoopFromPoints(sp.Vs).ContainsOrigin()}, []int32{0}, false, s2.LoopFromPoints(sp.Vs).RectBound())
		}
	}
	if (kind == "PolygonLossless" || kind == "PolygonCompressed") && r.Intn(8) == 0 {
		p := manyLoopPolygon(r, kind == "PolygonCompressed")
		return enc(func(b *bytes.Buffer) error { return p.Encode(b) })
	}
	switch kind {
	case "Point":
		return enc(func(b *bytes.Buffer) error { return pt.Encode(b) })
	case "Cap":
		return enc(func(b *bytes.Buffer) error {
			return s2.CapFromCenterChordAngle(pt, s1.ChordAngle(r.Float64()*4)).Encode(b)
		})
	case "Rect":
		return enc(func(b *bytes.Buffer) error {
			return s2.RectFromLatLng(s2.LatLngFromPoint(pt)).AddPoint(s2.LatLngFromPoint(gen.Uniform(r))).Encode(b)
		})
	case "CellID":
		return enc(func(b *bytes.Buffer) error { return gen.RandCellID(r, r.Intn(31)).Encode(b) })
	case "Cell":
		return enc(func(b *bytes.Buffer) error { return s2.CellFromCellID(gen.RandCellID(r, r.Intn(31))).Encode(b) })
	case "CellUnion":
		cu := s2.CellUnion(gen.CellMultiset(r, 12))
		return enc(func(b *bytes.Buffer) error { return cu.Encode(b) })
	case "Polyline":
		n := r.Intn(12)
		var vs []s2.Point
		for i := 0; i < n; i++ {
			vs = append(vs, gen.Near(r, pt, r.Float64()))
		}
		return enc(func(b *bytes.Buffer) error { return s2.Polyline(vs).Encode(b) })
	case "Loop":
		sp := gen.RandLoopSpec(r, 40)
		return enc(func(b *bytes.Buffer) error { return sp.Loop().Encode(b) })
	}
	// polygons: 0..3 rings; compressed wants snapped vertices, lossless arbitrary ones
	var loops []*s2.Loop
	ctr := gen.RandCenter(r)
	rad := gen.LogUniform(r, 1e-3, 0.5)
	nl := r.Intn(4)
	for d := 0; d < nl; d++ {
		n := 3 + r.Intn(8)
		if r.Intn(6) == 0 {
			n = 64 + r.Intn(10)
		}
		sp := gen.StarLoop(r, ctr, n, rad*0.85, rad)
		vs := sp.Vs
		if kind == "PolygonCompressed" {
			lvl := 30
			if r.Intn(2) == 0 {
				lvl = 14 + r.Intn(17)
			}
			if sv, ok := gen.SnapToLevel(vs, lvl); ok {
				vs = sv
				if r.Intn(2) == 0 && len(vs) > 3 { // one off-centre vertex
					vs = append([]s2.Point(nil), vs...)
					vs[r.Intn(len(vs))] = sp.Vs[0]
				}
			}
		}
		loops = append(loops, s2.LoopFromPoints(append([]s2.Point(nil), vs...)))
		rad = sp.RMin * 0.6
		if rad < 1e-7 {
			break
		}
	}
	p := s2.PolygonFromLoops(loops)
	return enc(func(b *bytes.Buffer) error { return p.Encode(b) })
}

var hostileCounts = []uint64{0, 1, 2, 1000, 100000, 1000001, maxLoops + 1, maxVertices + 1, 1<<31 - 1, 1 << 31, 1<<32 - 1, 1 << 32, 1<<63 - 1, 1 << 63, math.MaxUint64}

type mutated struct {
	b         []byte
	overLimit bool // a count field was set above the documented limit of that field
	how       string
}

func putUvarint(x uint64) []byte {
	var buf [binary.MaxVarintLen64]byte
	return append([]byte(nil), buf[:binary.PutUvarint(buf[:], x)]...)
}

// replaceVarintAt treats the bytes at off as a uvarint and replaces it.
func replaceVarintAt(b []byte, off int, v uint64) []byte {
	if off >= len(b) {
		return b
	}
	_, n := binary.Uvarint(b[off:])
	if n <= 0 {
		n = 1
	}
	out := append([]byte(nil), b[:off]...)
	out = append(out, putUvarint(v)...)
	return append(out, b[off+n:]...)
}

func mutate(r *rand.Rand, kind string, valid []byte) mutated {
	b := append([]byte(nil), valid...)
	switch r.Intn(11) {
	case 10: // a float64 field replaced by a special value (NaN, infinities, huge, denormal, out-of-range angles)
		if len(b) >= 8 {
			specials := []float64{math.NaN(), math.Inf(1), math.Inf(-1), 1e308, -1e308, 5e-324, 0, math.Copysign(0, -1), 4, -1, 10, -10, math.Pi, 2 * math.Pi}
			v := specials[r.Intn(len(specials))]
			off := r.Intn(len(b) - 7)
			if hdr := map[string]int{"Cap": 0, "Rect": 1, "Point": 1, "Loop": 5, "Polyline": 5}[kind]; r.Intn(4) != 0 && off >= hdr {
				off = hdr + (off-hdr)/8*8 // aligned to the float fields of the fixed layouts
			}
			if off+8 <= len(b) {
				binary.LittleEndian.PutUint64(b[off:], math.Float64bits(v))
				return mutated{b: b, how: fmt.Sprintf("float@%d=%v", off, v)}
			}
		}
		return mutated{b: b, how: "valid"}
	case 0:
		return mutated{b: b, how: "valid"}
	case 1: // truncate
		if len(b) == 0 {
			return mutated{b: b, how: "valid"}
		}
		return mutated{b: b[:r.Intn(len(b))], how: "truncated"}
	case 2: // bit flips
		for k := 0; k < 1+r.Intn(4) && len(b) > 0; k++ {
			b[r.Intn(len(b))] ^= 1 << uint(r.Intn(8))
		}
		return mutated{b: b, how: "bitflip"}
	case 3, 4, 5: // the main count field
		v := hostileCounts[r.Intn(len(hostileCounts))]
		switch kind {
		case "Loop", "Polyline":
			if len(b) >= 5 {
				binary.LittleEndian.PutUint32(b[1:], uint32(v))
				return mutated{b: b, overLimit: uint64(uint32(v)) > maxVertices, how: fmt.Sprintf("nvertices=%d", uint32(v))}
			}
		case "CellUnion":
			if len(b) >= 9 {
				binary.LittleEndian.PutUint64(b[1:], v)
				return mutated{b: b, overLimit: v > maxCells, how: fmt.Sprintf("ncells=%d", v)}
			}
		case "PolygonLossless":
			if len(b) >= 7 {
				if r.Intn(2) == 0 || len(b) < 12 || binary.LittleEndian.Uint32(b[3:]) == 0 { // (no first loop in a zero-loop polygon)
					binary.LittleEndian.PutUint32(b[3:], uint32(v))
					return mutated{b: b, overLimit: uint64(uint32(v)) > maxLoops, how: fmt.Sprintf("nloops=%d", uint32(v))}
				}
				binary.LittleEndian.PutUint32(b[8:], uint32(v)) // first loop's vertex count
				return mutated{b: b, overLimit: uint64(uint32(v)) > maxVertices, how: fmt.Sprintf("loop0.nvertices=%d", uint32(v))}
			}
		case "PolygonCompressed":
			if len(b) >= 3 {
				if r.Intn(2) == 0 {
					return mutated{b: replaceVarintAt(b, 2, v), overLimit: v > maxLoops, how: fmt.Sprintf("nloops=%d", v)}
				}
				_, n := binary.Uvarint(b[2:])
				if n > 0 && 2+n < len(b) {
					nl, _ := binary.Uvarint(b[2:])
					return mutated{b: replaceVarintAt(b, 2+n, v), overLimit: v > maxVertices && nl > 0, how: fmt.Sprintf("loop0.nvertices=%d", v)}
				}
			}
		}
		fallthrough
	case 6: // a varint at a random offset
		if len(b) > 1 {
			off := 1 + r.Intn(len(b)-1)
			v := hostileCounts[r.Intn(len(hostileCounts))]
			return mutated{b: replaceVarintAt(b, off, v), how: fmt.Sprintf("varint@%d=%d", off, v)}
		}
		return mutated{b: b, how: "valid"}
	case 7: // splice two encodings
		cut := 0
		if len(b) > 0 {
			cut = r.Intn(len(b))
		}
		other := validEncoding(r, kinds[r.Intn(len(kinds))])
		o := 0
		if len(other) > 0 {
			o = r.Intn(len(other))
		}
		return mutated{b: append(b[:cut], other[o:]...), how: "splice"}
	case 8: // version / header bytes
		if len(b) > 0 {
			b[0] = byte(r.Intn(8))
			if len(b) > 1 && r.Intn(2) == 0 {
				b[1] = byte(r.Intn(256))
			}
		}
		return mutated{b: b, how: "header"}
	default: // random bytes, with a plausible header
		n := r.Intn(64)
		rb := make([]byte, n)
		r.Read(rb)
		if n > 0 {
			rb[0] = []byte{1, 4, 1, 1}[r.Intn(4)]
		}
		return mutated{b: rb, how: "random"}
	}
}

// inputFor regenerates the input of a given index (used by the parent after a crash).
func inputFor(seed, idx int64) (string, []byte) {
	kind, mu := genInput(rand.New(rand.NewSource(mon.CaseSeed(seed, stream, idx))))
	return kind, mu.b
}

func genInput(r *rand.Rand) (string, mutated) {
	kind := kinds[r.Intn(len(kinds))]
	if r.Intn(3) == 0 {
		kind = []string{"PolygonCompressed", "PolygonLossless", "Loop", "CellUnion"}[r.Intn(4)]
	}
	valid := validEncoding(r, kind)
	return kind, mutate(r, kind, valid)
}

// ---------- the monitor proper (runs in the child) ----------

var allocSample = []metrics.Sample{{Name: "/gc/heap/allocs:bytes"}}

func allocated() uint64 {
	metrics.Read(allocSample)
	return allocSample[0].Value.Uint64()
}

func oneInput(c *mon.Case) {
	kind, mu := genInput(c.R)
	in := mu.b
	det := func() any {
		return map[string]any{"decoder": kind, "mutation": mu.how, "input_hex": hexb(in), "input_len": len(in)}
	}
	if c.I%50000 == 0 {
		c.Sample(det())
	}
	if mu.how != "valid" {
		c.Distinct(uint64(len(in)), uint64(c.I))
	}
	if mu.overLimit {
		c.Count("inputs.over_limit_count", 1)
	}
	// one input in five is decoded into a receiver that already holds another, valid value of the same type
	var primer []byte
	if kind != "Point" && kind != "Cap" && kind != "Rect" && kind != "CellID" && kind != "Cell" && c.R.Intn(5) == 0 {
		if (kind == "PolygonLossless" || kind == "PolygonCompressed") && c.R.Intn(2) == 0 {
			p := manyLoopPolygon(c.R, c.R.Intn(2) == 0)
			primer = enc(func(b *bytes.Buffer) error { return p.Encode(b) })
		} else {
			primer = validEncoding(c.R, kind)
		}
		c.Count("inputs.decoded_into_used_receiver", 1)
	}
	var err error
	var use func()
	a0 := allocated()
	func() {
		defer func() {
			if r := recover(); r != nil {
				fn := mon.LibFrame()
				c.Violation(kind+"/Decode/panic/"+fn, fmt.Sprintf("Decode panics in %s: %v", fn, trunc(fmt.Sprint(r))), det())
				err = fmt.Errorf("panicked")
			}
		}()
		err, use = decode(kind, in, c.R, primer, func(what string) {
			c.Violation(kind+"/reused-receiver/differs-from-fresh-decode/wrong-answer", "a value decoded into a receiver that already held another value differs from the same bytes decoded into a fresh receiver: "+what, det())
		})
	}()
	alloc := allocated() - a0
	c.Max("max_bytes_allocated_by_one_Decode", float64(alloc))
	if mu.overLimit {
		if err == nil {
			c.Violation(kind+"/over-limit-count-accepted/wrong-answer", "a declared count above the documented limit was accepted ("+mu.how+")", det())
		}
		if alloc > 8<<20 { // (the process-wide allocation counter also sees the runtime's own buffers: 1.02 MiB was measured once in 8*10^6 inputs for a call that allocates nothing)
			c.Violation(kind+"/over-limit-count-allocates/wrong-answer", fmt.Sprintf("%d bytes were allocated before/while rejecting a declared count above the documented limit (%s)", alloc, mu.how), det())
		}
	}
	if err != nil {
		c.Count("inputs.rejected", 1)
		return
	}
	c.Count("inputs.decoded_ok", 1)
	if use != nil {
		c.Count("inputs.used_after_decode", 1)
		func() {
			defer func() {
				if r := recover(); r != nil {
					fn := mon.LibFrame()
					c.Violation(kind+"/use-after-decode/panic/"+fn, fmt.Sprintf("Decode returned no error but using the value panics in %s: %v", fn, trunc(fmt.Sprint(r))), det())
				}
			}()
			use()
		}()
	}
}

func trunc(s string) string {
	if len(s) > 120 {
		return s[:120]
	}
	return s
}

func probes(r *rand.Rand) []s2.Point {
	return []s2.Point{gen.Uniform(r), s2.PointFromCoords(0, 0, 1), s2.OriginPoint(), gen.Special(r)}
}

// decode runs the decoder and returns a function exercising the value.
func decode(kind string, in []byte, r *rand.Rand, primer []byte, differs func(what string)) (error, func()) {
	// the bytes arrive through one of the reader shapes a caller may use: a bytes.Reader (also an
	// io.ByteReader), or a plain io.Reader with short reads, one byte per read, data returned together with
	// io.EOF, or a failure other than EOF after a prefix (a broken connection)
	var rd io.Reader = bytes.NewReader(in)
	switch r.Intn(10) {
	case 0, 1:
		rd = &shapedReader{b: in, r: r, max: 7}
	case 2:
		rd = &shapedReader{b: in, r: r, max: 1}
	case 3:
		rd = &shapedReader{b: in, r: r, max: 4096, eofWithData: true}
	case 4:
		rd = &shapedReader{b: in[:r.Intn(len(in)+1)], r: r, max: 64, failWith: errBroken}
	}
	var sink bytes.Buffer
	cellProbe := s2.CellFromCellID(gen.RandCellID(r, r.Intn(31)))
	switch kind {
	case "Point":
		var v s2.Point
		err := v.Decode(rd)
		return err, func() { v.Encode(&sink); _ = s2.LatLngFromPoint(v) }
	case "Cap":
		var v s2.Cap
		err := v.Decode(rd)
		return err, func() {
			v.Encode(&sink)
			_ = v.RectBound()
			_ = v.ContainsPoint(gen.Uniform(r))
			_ = v.CellUnionBound()
			_ = v.IntersectsCell(cellProbe)
			_ = v.ContainsCell(cellProbe)
			for f := 0; f < 6; f++ {
				_ = v.IntersectsCell(s2.CellFromCellID(s2.CellIDFromFace(f)))
				_ = v.ContainsCell(s2.CellFromCellID(s2.CellIDFromFace(f)))
			}
			_ = v.Union(s2.CapFromPoint(gen.Uniform(r)))
			_ = v.Complement()
			_ = v.IsValid()
		}
	case "Rect":
		var v s2.Rect
		err := v.Decode(rd)
		return err, func() {
			v.Encode(&sink)
			_ = v.CapBound()
			_ = v.ContainsPoint(gen.Uniform(r))
			_ = v.CellUnionBound()
			_ = v.IntersectsCell(cellProbe)
			_ = v.ContainsCell(cellProbe)
			for f := 0; f < 6; f++ {
				fc := s2.CellFromCellID(s2.CellIDFromFace(f))
				_ = v.IntersectsCell(fc)
				_ = v.ContainsCell(fc)
				for _, ch := range s2.CellIDFromFace(f).Children() {
					_ = v.IntersectsCell(s2.CellFromCellID(ch))
				}
			}
			_ = v.IsValid()
			_ = v.Area()
		}
	case "CellID":
		var v s2.CellID
		err := v.Decode(rd)
		return err, func() { v.Encode(&sink); _ = v.IsValid(); _ = v.ToToken(); _ = v.String() }
	case "Cell":
		var v s2.Cell
		err := v.Decode(rd)
		return err, func() {
			v.Encode(&sink)
			_ = v.RectBound()
			_ = v.CapBound()
			_ = v.ContainsPoint(gen.Uniform(r))
			for k := 0; k < 4; k++ {
				_ = v.Vertex(k)
			}
		}
	case "CellUnion":
		var v s2.CellUnion
		if primer != nil {
			v.Decode(bytes.NewReader(primer))
		}
		err := v.Decode(rd)
		if primer != nil && err == nil {
			var f s2.CellUnion
			if f.Decode(bytes.NewReader(in)) != nil || len(f) != len(v) {
				differs(fmt.Sprintf("%d cells vs %d", len(v), len(f)))
			}
		}
		return err, func() {
			v.Encode(&sink)
			_ = v.IsValid()
			_ = v.ContainsCellID(cellProbe.ID())
			_ = v.IntersectsCellID(cellProbe.ID())
			_ = v.LeafCellsCovered()
			_ = v.RectBound()
			_ = v.CapBound()
			_ = v.ContainsPoint(gen.Uniform(r))
			_ = v.IntersectsCell(cellProbe)
			_ = v.ContainsCell(cellProbe)
			_ = v.CellUnionBound()
			w := append(s2.CellUnion(nil), v...)
			if len(w) < 100000 {
				w.Normalize()
			}
		}
	case "Polyline":
		var v s2.Polyline
		if primer != nil {
			v.Decode(bytes.NewReader(primer))
		}
		err := v.Decode(rd)
		if primer != nil && err == nil {
			var f s2.Polyline
			if f.Decode(bytes.NewReader(in)) != nil || len(f) != len(v) {
				differs(fmt.Sprintf("%d vertices vs %d", len(v), len(f)))
			}
		}
		return err, func() {
			v.Encode(&sink)
			for i := 0; i < v.NumEdges() && i < 1000; i++ {
				_ = v.Edge(i)
			}
			_ = v.RectBound()
			_ = v.CapBound()
			_ = v.Length()
			_ = v.IntersectsCell(cellProbe)
		}
	case "Loop":
		var v s2.Loop
		if primer != nil {
			v.Decode(bytes.NewReader(primer))
		}
		err := v.Decode(rd)
		if primer != nil && err == nil {
			var f s2.Loop
			if f.Decode(bytes.NewReader(in)) != nil || f.NumVertices() != v.NumVertices() || f.ContainsOrigin() != v.ContainsOrigin() {
				differs(fmt.Sprintf("%d vertices vs %d", v.NumVertices(), f.NumVertices()))
			} else {
				for _, p := range probes(r) {
					if f.ContainsPoint(p) != v.ContainsPoint(p) {
						differs("ContainsPoint differs")
						break
					}
				}
			}
		}
		return err, func() {
			v.Encode(&sink)
			for i := 0; i < v.NumEdges() && i < 1000; i++ {
				_ = v.Edge(i)
			}
			_ = v.RectBound()
			_ = v.CapBound()
			for _, p := range probes(r) {
				_ = v.ContainsPoint(p)
			}
			_ = v.IntersectsCell(cellProbe)
			_ = v.ContainsCell(cellProbe)
			_ = v.NumChains()
		}
	}
	var v s2.Polygon
	if primer != nil {
		v.Decode(bytes.NewReader(primer))
	}
	err := v.Decode(rd)
	return err, func() {
		if primer != nil {
			var f s2.Polygon
			if f.Decode(bytes.NewReader(in)) != nil || f.NumLoops() != v.NumLoops() || f.NumEdges() != v.NumEdges() {
				differs(fmt.Sprintf("%d loops %d edges vs %d loops %d edges", v.NumLoops(), v.NumEdges(), f.NumLoops(), f.NumEdges()))
			} else {
				for i := 0; i < v.NumEdges() && i < 1000; i++ {
					if v.Edge(i) != f.Edge(i) || v.ChainPosition(i) != f.ChainPosition(i) {
						differs(fmt.Sprintf("edge %d differs", i))
						break
					}
				}
				for _, p := range probes(r) {
					if f.ContainsPoint(p) != v.ContainsPoint(p) {
						differs("ContainsPoint differs")
						break
					}
				}
			}
		}
		v.Encode(&sink)
		for i := 0; i < v.NumEdges() && i < 1000; i++ {
			_ = v.Edge(i)
		}
		_ = v.RectBound()
		_ = v.CapBound()
		for _, p := range probes(r) {
			_ = v.ContainsPoint(p)
		}
		// probes inside the decoded polygon's own bound: a vertex and the vertex centroid of some loops
		for k := 0; k < v.NumLoops() && k < 8; k++ {
			if lp := v.Loop(k); lp.NumVertices() > 0 {
				sum := lp.Vertex(0).Vector
				for j := 1; j < lp.NumVertices() && j < 50; j++ {
					sum = sum.Add(lp.Vertex(j).Vector)
				}
				_ = v.ContainsPoint(lp.Vertex(0))
				if sum.Norm2() > 0 {
					_ = v.ContainsPoint(s2.Point{Vector: sum.Normalize()})
				}
			}
		}
		_ = v.IntersectsCell(cellProbe)
		_ = v.ContainsCell(cellProbe)
		for k := 0; k < v.NumLoops() && k < 100; k++ {
			_ = v.Loop(k).NumVertices()
			_ = v.Loop(k).IsHole()
		}
		_ = v.NumChains()
	}
}

var errBroken = errors.New("connection reset")

type shapedReader struct {
	b           []byte
	r           *rand.Rand
	max         int
	eofWithData bool
	failWith    error
}

func (sr *shapedReader) Read(p []byte) (int, error) {
	if len(sr.b) == 0 {
		if sr.failWith != nil {
			return 0, sr.failWith
		}
		return 0, io.EOF
	}
	if len(p) == 0 {
		return 0, nil
	}
	n := 1 + sr.r.Intn(sr.max)
	if n > len(p) {
		n = len(p)
	}
	if n > len(sr.b) {
		n = len(sr.b)
	}
	copy(p, sr.b[:n])
	sr.b = sr.b[n:]
	if sr.eofWithData && len(sr.b) == 0 {
		return n, io.EOF
	}
	return n, nil
}
