// Package c17 monitors C17: edge distance, projection and interpolation
// primitives meet their documented error bounds and are mutually consistent.
package c17

import (
	"fmt"
	"math"
	"math/big"
	"math/rand"

	"github.com/golang/geo/s1"
	"github.com/golang/geo/s2"

	"verif/internal/gen"
	"verif/internal/mon"
	"verif/internal/ref"
)

func Run(m *mon.M) {
	m.Rule = "(x, a, b) with degenerate edges, edges of 1e-15..~180 degrees, x on / next to (1e-300..1e-3) / perpendicular to / antipodal to the edge, x at the interior/endpoint decision boundary +- ulps; edge pairs crossing, touching, collinear and antipodal; polylines of 2..60 vertices. A case is non-trivial and distinct when its bits are new AND (x is within 1e-9 rad of the edge or of the antipodal edge, or the closest point is within 1e-9 rad of an endpoint, or the edge is degenerate / longer than 179 degrees)"
	m.Assumptions = []string{"internal/ref 320-bit arithmetic: closest point on a geodesic, squared chord lengths, angles via atan2", "the library's own documented bound minUpdateDistanceMaxError(dist) (read through the verif hook) is the tolerance of the distance checks; edges whose endpoints are antipodal to within 1e-12 rad are excluded from that bound, as the library documents"}
	m.Require("dist.interior_case", 10000)
	m.Require("dist.endpoint_case", 10000)
	m.Require("dist.near_decision_boundary", 5000)
	m.Require("maxdist.through_antipode", 3000)
	m.Require("pair.crossing", 1000)
	m.Stream("point-edge", m.N(250000, 8000000), pointEdge)
	m.Stream("edge-pair", m.N(60000, 2000000), edgePair)
	m.Stream("interp", m.N(100000, 3000000), interp)
	m.Stream("online", m.N(100000, 3000000), onLine)
	m.Stream("polyline", m.N(15000, 400000), polyline)
}

func hp(p s2.Point) ref.H { return ref.HV(gen.V(p)) }

func fl(x *big.Float) float64 { return ref.Fl(x) }

// angleFromC2 converts a squared chord length to radians.
func angleFromC2(c2 float64) float64 { return ref.AngleFromChord2(c2) }

func genEdge(r *rand.Rand) (a, b s2.Point) {
	a = gen.Uniform(r)
	if r.Intn(5) == 0 {
		a = gen.Special(r)
	}
	switch r.Intn(7) {
	case 0:
		b = a // degenerate
	case 1:
		b = gen.Near(r, a, gen.LogUniform(r, 1e-15, 1e-6))
	case 2:
		b = gen.Near(r, a, gen.LogUniform(r, 1e-6, 1))
	case 3:
		b = gen.Near(r, s2.Point{Vector: a.Mul(-1)}, gen.LogUniform(r, 1e-9, 0.3)) // long edge
	case 4:
		b = gen.Near(r, a, math.Pi/2*(0.5+r.Float64())) // around and beyond 90 degrees
	default:
		b = gen.Uniform(r)
	}
	return
}

func genX(r *rand.Rand, a, b s2.Point) (s2.Point, string) {
	onEdge := func(t float64) s2.Point {
		if a == b || ref.Antipodal(gen.V(a), gen.V(b)) {
			return a
		}
		return gen.OnGreatCircle(r, a, b, t, 0)
	}
	switch r.Intn(11) {
	case 0:
		return a, "endpoint"
	case 1:
		return b, "endpoint"
	case 2:
		return onEdge(r.Float64()), "on-edge"
	case 3:
		return gen.Near(r, onEdge(r.Float64()), gen.LogUniform(r, 1e-300, 1e-3)), "next-to-edge"
	case 4: // near the decision boundary interior/endpoint: on the great circle perpendicular to the edge at an endpoint
		e := a
		if r.Intn(2) == 0 {
			e = b
		}
		n := a.PointCross(b)
		d := gen.LogUniform(r, 1e-12, 1.5)
		x := s2.Point{Vector: e.Mul(math.Cos(d)).Add(n.Normalize().Mul(math.Sin(d) * float64(1-2*r.Intn(2)))).Normalize()}
		return gen.NudgeUlps(r, x, r.Intn(4)), "decision-boundary"
	case 5: // nearly perpendicular to the edge's great circle (pole)
		n := a.PointCross(b)
		return gen.Near(r, s2.Point{Vector: n.Normalize()}, gen.LogUniform(r, 1e-15, 0.1)), "near-pole"
	case 6: // antipodal to a point of the edge
		p := onEdge(r.Float64())
		return gen.Near(r, s2.Point{Vector: p.Mul(-1)}, gen.LogUniform(r, 1e-15, 0.2)), "antipodal-to-edge"
	case 7:
		return gen.Near(r, onEdge(r.Float64()*1.4-0.2), gen.LogUniform(r, 1e-9, 0.5)), "beyond-ends"
	case 8:
		return gen.Near(r, a, gen.LogUniform(r, 1e-16, 1e-3)), "next-to-endpoint"
	default:
		return gen.Uniform(r), "uniform"
	}
}

func nearlyAntipodalEdge(a, b s2.Point) bool {
	return a.Add(b.Vector).Norm() < 1e-12
}

func pointEdge(c *mon.Case) {
	r := c.R
	a, b := genEdge(r)
	x, how := genX(r, a, b)
	if nearlyAntipodalEdge(a, b) {
		c.Count("skipped.antipodal_edge", 1)
		return
	}
	det := func(extra map[string]any) any {
		d := map[string]any{"x": gen.Hex(x), "a": gen.Hex(a), "b": gen.Hex(b), "x_kind": how, "edge_angle": a.Angle(b.Vector).Radians()}
		for k, v := range extra {
			d[k] = v
		}
		return d
	}
	if c.I < 3 {
		c.Sample(det(nil))
	}
	hx, ha, hb := hp(x), hp(a), hp(b)
	closest, interior := ref.ClosestOnSegment(hx, ha, hb)
	trueC2 := fl(ref.Chord2(hx, closest))
	trueAng := ref.Angle(hx, closest)
	endC2 := math.Min(fl(ref.Chord2(hx, ha)), fl(ref.Chord2(hx, hb)))
	if interior && a != b {
		c.Count("dist.interior_case", 1)
	} else {
		c.Count("dist.endpoint_case", 1)
	}
	// distance from the closest point to the nearer endpoint: small => near the decision boundary
	nearEnd := math.Min(fl(ref.Chord2(closest, ha)), fl(ref.Chord2(closest, hb)))
	if nearEnd < 1e-18 && how != "endpoint" {
		c.Count("dist.near_decision_boundary", 1)
	}
	if trueC2 < 1e-18 || nearEnd < 1e-18 || a == b || a.Angle(b.Vector).Radians() > 3.12 || how == "antipodal-to-edge" {
		c.Distinct(gen.Bits(x, a, b)...)
	}

	// (1) UpdateMinDistance against the exact distance, within the documented bound
	d, ok := s2.UpdateMinDistance(x, a, b, s1.InfChordAngle())
	if !ok {
		c.Violation("UpdateMinDistance/no-update-from-infinity/wrong-answer", "UpdateMinDistance(x,a,b,Inf) did not update", det(nil))
		return
	}
	if d < 0 || d > 4 {
		c.Violation("UpdateMinDistance/invalid-chord-angle/wrong-answer", fmt.Sprintf("UpdateMinDistance returned %x, not a valid squared chord length", float64(d)), det(nil))
		return
	}
	bound := s2.VerifMinUpdateDistanceMaxError(d)
	err := math.Abs(float64(d) - trueC2)
	c.Max("UpdateMinDistance.max_error_over_documented_bound", err/bound)
	if err > bound*1.0000001+1e-300 {
		c.Violation("UpdateMinDistance/error-bound/"+mon.Severity(err-bound), fmt.Sprintf("UpdateMinDistance=%x, exact squared chord distance %x: error %.3g is %.2f x the documented bound %.3g", float64(d), trueC2, err, err/bound, bound), det(map[string]any{"got": float64(d), "exact": trueC2}))
	}
	// (2) never more than the distance to an endpoint (plus the bound)
	if float64(d) > endC2+bound {
		c.Violation("UpdateMinDistance/exceeds-endpoint-distance/"+mon.Severity(float64(d)-endC2-bound), fmt.Sprintf("distance to the edge %x exceeds the distance to its nearer endpoint %x", float64(d), endC2), det(nil))
	}
	// (3) zero for the edge's own endpoints
	if (x == a || x == b) && d != 0 {
		c.Violation("UpdateMinDistance/endpoint-not-zero/wrong-answer", fmt.Sprintf("distance from an endpoint of the edge to the edge is %x", float64(d)), det(nil))
	}
	// DistanceFromSegment is the same quantity as an angle
	if ds := s2.DistanceFromSegment(x, a, b).Radians(); math.Abs(ds-d.Angle().Radians()) > 1e-15*(1+ds) {
		c.Violation("DistanceFromSegment/differs-from-UpdateMinDistance/wrong-answer", fmt.Sprintf("DistanceFromSegment=%v, UpdateMinDistance as an angle=%v", ds, d.Angle().Radians()), det(nil))
	}
	// (4) threshold forms agree with comparing the computed distance
	for _, t := range []s1.ChordAngle{d.Successor(), s1.ChordAngle(float64(d) * (1 + 1e-9)).Successor(), d.Predecessor(), s1.ChordAngle(r.Float64() * 4), 0, s1.StraightChordAngle} {
		if t < 0 || t > 4 {
			continue
		}
		want := d < t
		got := s2.IsDistanceLess(x, a, b, t)
		c.Count("threshold.checked", 1)
		if got != want {
			c.Violation("IsDistanceLess/disagrees-with-computed-distance/wrong-answer", fmt.Sprintf("IsDistanceLess(limit=%x)=%v but UpdateMinDistance computes %x", float64(t), got, float64(d)), det(map[string]any{"limit": fmt.Sprintf("%x", float64(t))}))
		}
		if _, ok2 := s2.UpdateMinDistance(x, a, b, t); ok2 != got {
			c.Violation("UpdateMinDistance/flag-disagrees-with-IsDistanceLess/wrong-answer", "UpdateMinDistance(limit).ok != IsDistanceLess(limit)", det(nil))
		}
	}
	// the exact tie: the limit equal to the computed distance must not be "less"
	if got := s2.IsDistanceLess(x, a, b, d); got {
		d2, _ := s2.UpdateMinDistance(x, a, b, d)
		rel := math.Abs(float64(d2)-float64(d)) / math.Max(float64(d), 1e-300)
		sev := "gross"
		if rel <= 4.5e-16 {
			sev = "ulp"
		}
		c.Violation("IsDistanceLess/true-at-the-computed-distance/"+sev, fmt.Sprintf("IsDistanceLess(limit = computed distance %x) is true: a second evaluation with that limit returns %x", float64(d), float64(d2)), det(nil))
	}
	// interior forms
	di, oki := s2.UpdateMinInteriorDistance(x, a, b, s1.InfChordAngle())
	if oki {
		// the distance is the smaller of the interior and the endpoint evaluation: they may differ, within the bound
		if di < d || float64(di)-float64(d) > bound {
			c.Violation("UpdateMinInteriorDistance/inconsistent-with-UpdateMinDistance/wrong-answer", fmt.Sprintf("interior distance %x, distance %x", float64(di), float64(d)), det(nil))
		}
		if !interior && nearEnd > 1e-24 && a != b {
			// claimed interior although the exact closest point is an endpoint: allowed only within the error bound
			if fl(ref.Chord2(closest, hp(s2.Project(x, a, b)))) > 1e-20 && math.Abs(float64(di)-endC2) > bound {
				c.Violation("UpdateMinInteriorDistance/claims-interior-for-endpoint-case/wrong-answer", "interior distance reported although the closest point is an endpoint", det(nil))
			}
		}
	}
	// (5) Project realises the distance and lies on the edge
	if a != b {
		p := s2.Project(x, a, b)
		hpP := hp(p)
		off := math.Sqrt(math.Max(0, fl(ref.DistChord2ToSegment(hpP, ha, hb)))) // distance of the projected point from the edge
		real := ref.Angle(hx, hpP)
		c.Max("Project.max_distance_from_edge_rad", off)
		c.Max("Project.max_excess_over_true_distance_rad", real-trueAng)
		cond := 2 / math.Max(a.Add(b.Vector).Norm(), 1e-300) // conditioning of the edge normal (1 for short edges, large near 180 degrees)
		if off > 4e-15*cond {
			c.Violation("Project/not-on-edge/"+mon.Severity(off), fmt.Sprintf("Project(x,a,b) is %.3g rad away from the edge", off), det(map[string]any{"projected": gen.Hex(p)}))
		}
		// compare in the squared-chord domain, where the library documents its error (angles lose accuracy near 180 degrees)
		realC2 := fl(ref.Chord2(hx, hpP))
		tolC2 := bound + (4e-15*cond+2*off)*2*math.Sqrt(math.Max(trueC2, 1e-300)) + 1e-29
		if math.Abs(realC2-trueC2) > tolC2 {
			c.Violation("Project/does-not-realise-distance/"+mon.Severity(math.Abs(realC2-trueC2)-tolC2), fmt.Sprintf("the projected point is at squared chord distance %.17g from x, the edge is at %.17g (tolerance %.3g)", realC2, trueC2, tolC2), det(map[string]any{"projected": gen.Hex(p)}))
		}
		_ = real
	}
	// (6) maximum distance: pi minus the distance from the antipode
	hxn := hx.Neg()
	ac, _ := ref.ClosestOnSegment(hxn, ha, hb)
	trueMaxC2 := 4 - fl(ref.Chord2(hxn, ac))
	dm, okm := s2.UpdateMaxDistance(x, a, b, s1.NegativeChordAngle)
	if !okm {
		c.Violation("UpdateMaxDistance/no-update/wrong-answer", "UpdateMaxDistance(x,a,b,Negative) did not update", det(nil))
	} else {
		if trueMaxC2 > 2 {
			c.Count("maxdist.through_antipode", 1)
		}
		// no bound is documented for the maximum distance; the monitor allows the minimum-distance bound of the
		// antipodal problem plus the rounding of the 90-degree branch decision amplified by the length of the
		// edge (for an edge of length L an endpoint error delta moves the interior maximum by delta/cos(L/2))
		bm := s2.VerifMinUpdateDistanceMaxError(s1.ChordAngle(math.Max(0, 4-float64(dm)))) + 3e-16*float64(dm) + 2e-15/math.Max(a.Add(b.Vector).Norm(), 1e-300)
		em := math.Abs(float64(dm) - trueMaxC2)
		c.Max("UpdateMaxDistance.max_error_over_bound", em/bm)
		if em > bm*1.0000001 {
			c.Violation("UpdateMaxDistance/error-bound/"+mon.Severity(em-bm), fmt.Sprintf("UpdateMaxDistance=%x, exact %x (error %.3g, bound %.3g)", float64(dm), trueMaxC2, em, bm), det(map[string]any{"got": float64(dm), "exact": trueMaxC2}))
		}
	}
}

func edgePair(c *mon.Case) {
	r := c.R
	a0, a1 := genEdge(r)
	var b0, b1 s2.Point
	switch r.Intn(6) {
	case 0: // crossing a
		if a0 == a1 || nearlyAntipodalEdge(a0, a1) {
			b0, b1 = genEdge(r)
			break
		}
		m := gen.OnGreatCircle(r, a0, a1, 0.1+0.8*r.Float64(), 0)
		n := a0.PointCross(a1).Normalize()
		h := gen.LogUniform(r, 1e-12, 1)
		b0 = s2.Point{Vector: m.Mul(math.Cos(h)).Add(n.Mul(math.Sin(h))).Normalize()}
		b1 = s2.Point{Vector: m.Mul(math.Cos(h)).Sub(n.Mul(math.Sin(h))).Normalize()}
	case 1: // sharing an endpoint
		b0 = a0
		b1 = gen.Near(r, a0, gen.LogUniform(r, 1e-9, 2))
	case 2: // collinear
		if a0 == a1 || nearlyAntipodalEdge(a0, a1) {
			b0, b1 = genEdge(r)
			break
		}
		b0 = gen.OnGreatCircle(r, a0, a1, r.Float64()*2-0.5, r.Intn(2))
		b1 = gen.OnGreatCircle(r, a0, a1, r.Float64()*2-0.5, r.Intn(2))
	case 3: // antipodal reflection of a crossing pair (max distance pi)
		b0, b1 = genEdge(r)
		b0, b1 = s2.Point{Vector: b0.Mul(-1)}, s2.Point{Vector: b1.Mul(-1)}
	case 4:
		b0 = gen.Near(r, a0, gen.LogUniform(r, 1e-12, 1))
		b1 = gen.Near(r, a1, gen.LogUniform(r, 1e-12, 1))
	default:
		b0, b1 = genEdge(r)
	}
	if nearlyAntipodalEdge(a0, a1) || nearlyAntipodalEdge(b0, b1) {
		return
	}
	det := func() any {
		return map[string]any{"a0": gen.Hex(a0), "a1": gen.Hex(a1), "b0": gen.Hex(b0), "b1": gen.Hex(b1)}
	}
	if c.I < 3 {
		c.Sample(det())
	}
	ha0, ha1, hb0, hb1 := hp(a0), hp(a1), hp(b0), hp(b1)
	cross := ref.CrossingSign(gen.V(a0), gen.V(a1), gen.V(b0), gen.V(b1)) == ref.Cross
	trueMin := 0.0
	if !cross {
		trueMin = math.Min(math.Min(fl(ref.DistChord2ToSegment(ha0, hb0, hb1)), fl(ref.DistChord2ToSegment(ha1, hb0, hb1))),
			math.Min(fl(ref.DistChord2ToSegment(hb0, ha0, ha1)), fl(ref.DistChord2ToSegment(hb1, ha0, ha1))))
	} else {
		c.Count("pair.crossing", 1)
		c.Distinct(gen.Bits(a0, a1, b0, b1)...)
	}
	d, ok := s2.VerifUpdateEdgePairMinDistance(a0, a1, b0, b1, s1.InfChordAngle())
	if !ok {
		c.Violation("EdgePairMinDistance/no-update/wrong-answer", "edge pair minimum distance did not update from infinity", det())
		return
	}
	bound := s2.VerifMinUpdateDistanceMaxError(d)
	if e := math.Abs(float64(d) - trueMin); e > bound*1.0000001 {
		c.Violation("EdgePairMinDistance/error-bound/"+mon.Severity(e-bound), fmt.Sprintf("edge pair minimum distance %x, exact %x (crossing=%v)", float64(d), trueMin, cross), det())
	}
	// threshold form: with a finite limit the distance is updated exactly when the computed distance is below
	// the limit, and then to the same value
	{
		lims := []s1.ChordAngle{d, s1.ChordAngle(math.Nextafter(float64(d), 5)), s1.ChordAngle(float64(d) * r.Float64()), s1.ChordAngle(float64(d) + gen.LogUniform(r, 1e-30, 4)), s1.ChordAngle(gen.LogUniform(r, 1e-30, 4)), 0, s1.StraightChordAngle}
		for _, t := range lims {
			if t < 0 || t > 4 {
				continue
			}
			c.Count("pair.threshold_forms", 1)
			dt, okt := s2.VerifUpdateEdgePairMinDistance(a0, a1, b0, b1, t)
			if okt != (d < t) || (okt && dt != d) || (!okt && dt != t) {
				c.Violation("EdgePairMinDistance/threshold-disagrees-with-computed-distance/wrong-answer", fmt.Sprintf("with limit %x the edge pair distance update returns (%x,%v); without a limit the distance is %x (crossing=%v)", float64(t), float64(dt), okt, float64(d), cross), det())
				break
			}
		}
	}
	// the closest points realise it
	if a0 != a1 && b0 != b1 {
		pa, pb := s2.EdgePairClosestPoints(a0, a1, b0, b1)
		offA := math.Sqrt(math.Max(0, fl(ref.DistChord2ToSegment(hp(pa), ha0, ha1))))
		offB := math.Sqrt(math.Max(0, fl(ref.DistChord2ToSegment(hp(pb), hb0, hb1))))
		sep := ref.Angle(hp(pa), hp(pb))
		trueAng := angleFromC2(trueMin)
		cond := 2/math.Max(a0.Add(a1.Vector).Norm(), 1e-300) + 2/math.Max(b0.Add(b1.Vector).Norm(), 1e-300)
		c.Max("EdgePairClosestPoints.max_excess_rad", sep-trueAng)
		if offA > 4e-15*cond || offB > 4e-15*cond {
			c.Violation("EdgePairClosestPoints/not-on-edges/"+mon.Severity(math.Max(offA, offB)), fmt.Sprintf("closest points are %.3g / %.3g rad off their edges", offA, offB), det())
		}
		sepC2 := fl(ref.Chord2(hp(pa), hp(pb)))
		tolC2 := bound + (8e-15*cond+2*(offA+offB))*2*math.Sqrt(math.Max(trueMin, 1e-300)) + 1e-28
		if math.Abs(sepC2-trueMin) > tolC2 {
			c.Violation("EdgePairClosestPoints/do-not-realise-distance/"+mon.Severity(math.Abs(sepC2-trueMin)-tolC2), fmt.Sprintf("closest points are at squared chord distance %.17g, the edge pair distance is %.17g", sepC2, trueMin), det())
		}
		_, _ = sep, trueAng
	}
	// maximum distance
	crossAnti := ref.CrossingSign(gen.V(a0), gen.V(a1), gen.V(s2.Point{Vector: b0.Mul(-1)}), gen.V(s2.Point{Vector: b1.Mul(-1)})) == ref.Cross
	trueMax := 4.0
	if !crossAnti {
		mx := func(x, e0, e1 ref.H) float64 {
			xn := x.Neg()
			cl, _ := ref.ClosestOnSegment(xn, e0, e1)
			return 4 - fl(ref.Chord2(xn, cl))
		}
		trueMax = math.Max(math.Max(mx(ha0, hb0, hb1), mx(ha1, hb0, hb1)), math.Max(mx(hb0, ha0, ha1), mx(hb1, ha0, ha1)))
	}
	dm, okm := s2.VerifUpdateEdgePairMaxDistance(a0, a1, b0, b1, s1.NegativeChordAngle)
	if okm {
		bm := s2.VerifMinUpdateDistanceMaxError(s1.ChordAngle(math.Max(0, 4-float64(dm)))) + 3e-16*float64(dm) + 2e-15/math.Max(a0.Add(a1.Vector).Norm(), 1e-300) + 2e-15/math.Max(b0.Add(b1.Vector).Norm(), 1e-300)
		if e := math.Abs(float64(dm) - trueMax); e > bm*1.0000001 {
			c.Violation("EdgePairMaxDistance/error-bound/"+mon.Severity(e-bm), fmt.Sprintf("edge pair maximum distance %x, exact %x (antipodal crossing=%v)", float64(dm), trueMax, crossAnti), det())
		}
		for _, t := range []s1.ChordAngle{dm, s1.ChordAngle(math.Nextafter(float64(dm), -1)), s1.ChordAngle(float64(dm) * r.Float64()), s1.ChordAngle(gen.LogUniform(r, 1e-30, 4)), 0, s1.StraightChordAngle} {
			if t < 0 || t > 4 {
				continue
			}
			dt, okt := s2.VerifUpdateEdgePairMaxDistance(a0, a1, b0, b1, t)
			if okt != (dm > t) || (okt && dt != dm) || (!okt && dt != t) {
				c.Violation("EdgePairMaxDistance/threshold-disagrees-with-computed-distance/wrong-answer", fmt.Sprintf("with limit %x the edge pair maximum distance update returns (%x,%v); without a limit the maximum is %x", float64(t), float64(dt), okt, float64(dm)), det())
				break
			}
		}
	} else {
		c.Violation("EdgePairMaxDistance/no-update/wrong-answer", "edge pair maximum distance did not update", det())
	}
}

// onLine: PointOnLine / PointOnRay / PointToLeft / PointToRight. The result has unit length, lies at the
// requested distance from A, on the great circle of A and B (resp. the perpendicular one through A), on the
// side the function names; InterpolateAtDistance along the same line returns the same point. The edge AB may
// be as short as 1e-15 rad (its direction is still exactly defined by the coordinates), nearly 180 degrees,
// or degenerate (then only length and distance are asserted).
func onLine(c *mon.Case) {
	r := c.R
	a, b := genEdge(r)
	if r.Intn(4) == 0 {
		b = gen.Near(r, a, gen.LogUniform(r, 1e-15, 1e-8)) // very short edges with large distances are the hard case
	}
	if ref.Antipodal(gen.V(a), gen.V(b)) {
		return
	}
	rr := []float64{0, gen.LogUniform(r, 1e-15, 1), r.Float64() * math.Pi, math.Pi * (1 - gen.LogUniform(r, 1e-15, 1e-3)), math.Pi / 2}[r.Intn(5)]
	ang := s1.Angle(rr)
	det := func() any {
		return map[string]any{"a": gen.Hex(a), "b": gen.Hex(b), "r": fmt.Sprintf("%x", rr)}
	}
	if c.I < 3 {
		c.Sample(det())
	}
	const tol = 2.5e-15 // (the original documents (4+2/sqrt 3)*2^-52 + 2^-53 = 1.26e-15 for PointOnLine)
	ha, hb := hp(a), hp(b)
	n := ha.Cross(hb) // exact normal of the line AB (zero iff A == B)
	type res struct {
		name  string
		p     s2.Point
		plane ref.H // the point must lie in the plane with this normal (nil: not asserted)
		ahead ref.H // (a x p) must point along this vector (nil: not asserted)
	}
	var out []res
	pl := s2.PointOnLine(a, b, ang)
	out = append(out, res{"PointOnLine", pl, n, n})
	if a != b {
		// the perpendicular line through A: its normal is the tangent of AB at A, t = (a x b) x a; PointToLeft
		// moves towards a x b, PointToRight away from it
		t := n.Cross(ha)
		out = append(out, res{"PointToLeft", s2.PointToLeft(a, b, ang), t, t.Neg()}, res{"PointToRight", s2.PointToRight(a, b, ang), t, t})
		out = append(out, res{"InterpolateAtDistance", s2.InterpolateAtDistance(ang, a, b), n, n})
	}
	c.Count("online.calls", int64(len(out)))
	if a != b && a.Distance(b) < 1e-8 && rr > 0.01 {
		c.Count("online.short_edge_long_distance", 1)
		c.Distinct(gen.Bits(a, b)...)
	}
	for _, o := range out {
		hpP := hp(o.p)
		if math.Abs(o.p.Norm()-1) > 4e-16 {
			c.Violation(o.name+"/not-unit-length/wrong-answer", fmt.Sprintf("%s returned a vector of length %.17g", o.name, o.p.Norm()), det())
			continue
		}
		if e := math.Abs(ref.Angle(ha, hpP) - rr); e > tol {
			c.Violation(o.name+"/wrong-distance-from-A/"+mon.Severity(e), fmt.Sprintf("%s(r=%.17g) is %.17g rad from A (off by %.3g)", o.name, rr, ref.Angle(ha, hpP), e), det())
			continue
		}
		if a == b || o.plane.IsZero() {
			continue
		}
		// distance from the plane of the line
		nu := o.plane.Unit()
		off := math.Abs(fl(nu.Dot(hpP)))
		c.Max("online.max_off_line_rad", off)
		if off > tol {
			c.Violation(o.name+"/off-the-line/"+mon.Severity(off), fmt.Sprintf("%s(r=%.17g) is %.3g rad off the great circle it should lie on", o.name, rr, off), det())
			continue
		}
		// on the side of B (resp. left / right): (a x p) has the direction of the given vector, for 0 < r < pi
		if rr > 1e-14 && rr < math.Pi-1e-14 {
			if ha.Cross(hpP).Dot(o.ahead).Sign() <= 0 {
				c.Violation(o.name+"/wrong-direction/wrong-answer", fmt.Sprintf("%s(r=%.17g) lies on the opposite side of A", o.name, rr), det())
			}
		}
	}
}

func interp(c *mon.Case) {
	r := c.R
	a, b := genEdge(r)
	if a == b || a.Add(b.Vector).Norm() < 1e-6 {
		return
	}
	ang := a.Angle(b.Vector).Radians()
	t := r.Float64()
	if r.Intn(4) == 0 {
		t = []float64{0, 1, 0.5, 1e-9, 1 - 1e-9}[r.Intn(5)]
	}
	x := s2.Interpolate(t, a, b)
	det := func() any {
		return map[string]any{"a": gen.Hex(a), "b": gen.Hex(b), "t": t, "x": gen.Hex(x), "edge_angle": ang}
	}
	if c.I < 3 {
		c.Sample(det())
	}
	c.Count("interp.checked", 1)
	c.Distinct(append(gen.Bits(a, b), math.Float64bits(t))...)
	hx, ha, hb := hp(x), hp(a), hp(b)
	// the interpolated point is on the edge and at fraction t
	off := math.Sqrt(math.Max(0, fl(ref.DistChord2ToSegment(hx, ha, hb))))
	cond := 2 / a.Add(b.Vector).Norm()
	c.Max("Interpolate.max_distance_from_edge_rad", off)
	if off > 4e-15*cond {
		c.Violation("Interpolate/not-on-edge/"+mon.Severity(off), fmt.Sprintf("Interpolate(t) is %.3g rad away from the edge", off), det())
	}
	ax := ref.Angle(ha, hx)
	ab := ref.Angle(ha, hb)
	if math.Abs(ax-t*ab) > 4e-15*cond+4e-16*ab {
		c.Violation("Interpolate/wrong-fraction/"+mon.Severity(math.Abs(ax-t*ab)), fmt.Sprintf("Interpolate(%v) lies at %.17g rad from a, expected %.17g", t, ax, t*ab), det())
	}
	// interpolating at the measured fraction returns the point
	f := s2.DistanceFraction(x, a, b)
	y := s2.Interpolate(f, a, b)
	back := ref.Angle(hx, hp(y))
	c.Max("Interpolate(DistanceFraction).max_roundtrip_rad", back)
	if back > 8e-15*cond+1e-15 {
		c.Violation("Interpolate-DistanceFraction/round-trip/"+mon.Severity(back), fmt.Sprintf("Interpolate(DistanceFraction(x)) is %.3g rad from x", back), det())
	}
	if math.Abs(f-t)*ab > 8e-15*cond+1e-15 {
		c.Violation("DistanceFraction/wrong-fraction/"+mon.Severity(math.Abs(f-t)*ab), fmt.Sprintf("DistanceFraction of Interpolate(%v) is %v", t, f), det())
	}
	// projecting a point of the edge returns (nearly) the point
	p := s2.Project(x, a, b)
	if d := ref.Angle(hx, hp(p)); d > 8e-15*cond {
		c.Violation("Project/moves-point-of-edge/"+mon.Severity(d), fmt.Sprintf("Project moved a point of the edge by %.3g rad", d), det())
	}
}

func polyline(c *mon.Case) {
	r := c.R
	n := 2 + r.Intn(8)
	if r.Intn(4) == 0 {
		n = 10 + r.Intn(50)
	}
	step := gen.LogUniform(r, 1e-7, 0.5)
	vs := []s2.Point{gen.RandCenter(r)}
	for len(vs) < n {
		nx := gen.Near(r, vs[len(vs)-1], step*(0.2+r.Float64()))
		if nx == vs[len(vs)-1] {
			continue
		}
		vs = append(vs, nx)
	}
	pl := s2.Polyline(vs)
	// exact length
	trueLen := 0.0
	cum := []float64{0}
	for i := 1; i < n; i++ {
		trueLen += ref.Angle(hp(vs[i-1]), hp(vs[i]))
		cum = append(cum, trueLen)
	}
	det := func(extra map[string]any) any {
		d := map[string]any{"n": n, "first": gen.Hex(vs[0]), "step": step, "length": trueLen}
		for k, v := range extra {
			d[k] = v
		}
		return d
	}
	if c.I < 2 {
		c.Sample(det(nil))
	}
	c.Count("polyline.checked", 1)
	c.Distinct(append(gen.Bits(vs[0], vs[n-1]), uint64(n))...)
	tolLen := 4e-15*float64(n) + 4e-16*trueLen*float64(n)
	if l := pl.Length().Radians(); math.Abs(l-trueLen) > tolLen {
		c.Violation("Polyline/Length/"+mon.Severity(math.Abs(l-trueLen)), fmt.Sprintf("Length=%.17g, exact %.17g", l, trueLen), det(nil))
	}
	for k := 0; k < 6; k++ {
		f := r.Float64()
		if k == 0 {
			f = []float64{0, 1, 0.5}[r.Intn(3)]
		}
		p, next := pl.Interpolate(f)
		if next < 1 || next > n {
			c.Violation("Polyline/Interpolate/next-vertex-out-of-range/wrong-answer", fmt.Sprintf("next vertex %d for a polyline of %d vertices", next, n), det(map[string]any{"fraction": f}))
			continue
		}
		// p must lie on the edge (next-1, next) (or be the last vertex) at arc length f*trueLen
		var along float64
		if next == n {
			along = cum[n-1] - ref.Angle(hp(p), hp(vs[n-1]))
		} else {
			along = cum[next-1] + ref.Angle(hp(vs[next-1]), hp(p))
			if next >= 1 && next < n {
				off := math.Sqrt(math.Max(0, fl(ref.DistChord2ToSegment(hp(p), hp(vs[next-1]), hp(vs[next])))))
				if off > 1e-14 {
					c.Violation("Polyline/Interpolate/not-on-polyline/"+mon.Severity(off), fmt.Sprintf("Interpolate(%v) is %.3g rad off the edge before vertex %d", f, off, next), det(map[string]any{"fraction": f}))
				}
			}
		}
		if math.Abs(along-f*trueLen) > tolLen+1e-14 {
			c.Violation("Polyline/Interpolate/wrong-arc-length/"+mon.Severity(math.Abs(along-f*trueLen)), fmt.Sprintf("Interpolate(%v) lies at arc length %.17g, expected %.17g", f, along, f*trueLen), det(map[string]any{"fraction": f, "next": next}))
		}
		// un-interpolating returns the fraction
		g := pl.Uninterpolate(p, next)
		if math.Abs(g-f)*trueLen > tolLen+2e-14 {
			c.Violation("Polyline/Uninterpolate/round-trip/"+mon.Severity(math.Abs(g-f)*trueLen), fmt.Sprintf("Uninterpolate(Interpolate(%v)) = %v", f, g), det(map[string]any{"fraction": f, "next": next}))
		}
		// projecting a point of the polyline returns it
		q, _ := pl.Project(p)
		if d := ref.Angle(hp(p), hp(q)); d > 2e-14 {
			c.Violation("Polyline/Project/moves-point-of-polyline/"+mon.Severity(d), fmt.Sprintf("Project moved a point of the polyline by %.3g rad", d), det(map[string]any{"fraction": f}))
		}
	}
	// projecting an arbitrary point realises the minimum over all edges
	x := gen.Near(r, vs[r.Intn(n)], step*3*r.Float64())
	q, nx := pl.Project(x)
	best := math.Inf(1)
	for i := 1; i < n; i++ {
		best = math.Min(best, fl(ref.DistChord2ToSegment(hp(x), hp(vs[i-1]), hp(vs[i]))))
	}
	got := ref.Angle(hp(x), hp(q))
	if want := angleFromC2(best); got > want+2e-14 || got < want-1e-14 {
		c.Violation("Polyline/Project/not-closest/"+mon.Severity(math.Abs(got-want)), fmt.Sprintf("Project returns a point %.17g rad from x, the polyline is %.17g rad away", got, want), det(map[string]any{"x": gen.Hex(x), "next": nx}))
	}
}
