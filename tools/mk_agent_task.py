#!/usr/bin/env python3
"""Writes /tmp/wt/<id>/TASK.md for a mutation sub-agent: property text + rules only (nothing from /verif's machinery)."""
import json,sys,glob,os
props={json.loads(l)['id']:json.loads(l) for l in open('/verif/properties.jsonl')}
T='''# Task: break one semantic property of golang/geo without the test suite noticing

You work ONLY inside this directory: {wt} — a scratch git worktree of the Go library
github.com/golang/geo (Go port of Google's S2 geometry library). Do not read or write /repo, /verif or any
other checkout. There is no network. In every shell call first run:

    export GOFLAGS=-mod=mod GOPROXY=off GOSUMDB=off GOTOOLCHAIN=local

The existing test suite is `go test -vet=off -count=1 ./...` run from {wt} (about 10-20 s; it is randomly seeded, so run it a few times).
Never use `git stash` (the stash is shared between worktrees); use `git diff > file`, `git checkout -- .`, `git apply file`.
First create {wt}/mutants/go.mod containing the single line `module mutants` so that `./...` ignores that directory.
Files named verif_*.go and calls to verifSched/verifCount are inert test instrumentation: leave them alone.

## The property

**{id} — {title}**

{statement}

Quantified: {qtext}

Anchored in: {files}

Mechanisms the property depends on:
{mech}

{known}## What to produce

TWO independent, different source changes ("mutants") to non-test .go files of the library, each of which
makes the library violate the property above while

1. the library still compiles,
2. the ENTIRE existing test suite, unedited, still passes (run it), and
3. the change looks like a realistic mistake a maintainer could make (a refactor slip, an over-eager
   optimisation, a wrong boundary condition, a stale cache, a missed case) — not sabotage like `return false`.

Prefer changes that need something specific to manifest: an unusual or boundary input, a particular
multi-step sequence of operations, a particular size threshold, a particular interleaving, or two sites that
each look fine alone. Do NOT produce changes that ordinary everyday use would expose at once. The two mutants
should touch different mechanisms/functions.

For each mutant k in {{{k1},{k2}}} create the directory {wt}/mutants/m<k>/ containing:

* `patch.diff` — `git diff` of the library change only (relative to HEAD, applies with `git apply` at the
  worktree root; no test files, no files under mutants/).
* `demo_test.go` — a self-contained Go test file (package s2, or the package of the changed code; state in
  meta.json which directory it must be copied into; give it a unique test name such as
  TestMutant{id}m<k>) that FAILS with the patch applied and PASSES on the unmodified tree. It must be deterministic.
* `meta.json` — {{"property":"{id}","summary":"...","needs_to_manifest":"...","files_touched":[...],
  "demo_dir":"s2","demo_run":"go test -vet=off -count=1 -run TestMutant{id}m<k> ./s2/",
  "suite_with_patch":"pass","demo_with_patch":"fail","demo_without_patch":"pass"}}

You must actually verify all three facts for each mutant (suite passes with patch; demo fails with patch; demo
passes without patch). When finished, leave the worktree with the library files restored
(`git checkout -- .`) and no demo file left inside the package directories; only the untracked `mutants/` directory remains.
Reply with a short summary (what each mutant changes, what it needs to manifest). If after honest effort you
can only find one, deliver one and say so.
'''
for pid in sys.argv[1:]:
    p=props[pid]; wt=f'/tmp/wt/{pid}'
    mech='\n'.join(f"- {m['name']} ({m['where']})" for m in p['anchors'].get('mechanism',[]))
    olds=sorted(glob.glob(f'/verif/seeded/{pid}-m*/meta.json'))
    known=''
    if olds:
        known='## Changes that are already known (do NOT repeat these or close variants; pick other functions/mechanisms)\n\n'+''.join('- '+json.load(open(f))['summary'][:400]+'\n' for f in olds)+'\n'
    k1=len(olds)+1
    os.makedirs(wt,exist_ok=True)
    open(f'{wt}/TASK.md','w').write(T.format(wt=wt,id=pid,title=p['title'],statement=p['statement'],qtext=p['quantifier']['text'],files=', '.join(p['anchors']['files']),mech=mech,known=known,k1=k1,k2=k1+1))
    print('wrote',wt)
