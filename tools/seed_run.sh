#!/bin/bash
# tools/seed_run.sh <seeded name e.g. C02-m1> [quick|thorough] [property override]
# Applies a seeded mutant to /repo, runs the property's check, and always
# restores /repo afterwards. Prints DETECTED / MISSED.
set -u
name="$1"; tier="${2:-quick}"; prop="${3:-${name%%-*}}"
d=/verif/seeded/$name
if [ -n "$(git -C /repo status --porcelain --untracked-files=no)" ]; then echo "/repo not clean"; exit 2; fi
git -C /repo apply "$d/patch.diff" || { echo "$name: patch does not apply"; exit 2; }
trap 'git -C /repo checkout -- . ' EXIT
start=$(date +%s)
out=$(cd /verif && VERIF_SEED="${VERIF_SEED:-1}" ./check "$prop" "$tier" 2>&1); rc=$?
end=$(date +%s)
echo "$out" | grep -E "VIOLATION|fingerprint=|BROKEN|INCONCLUSIVE|BUILD-FAILED|verdict=" | head -12
if echo "$out" | grep -q "^VIOLATION property=$prop"; then echo "$name [$prop $tier seed=${VERIF_SEED:-1}]: DETECTED rc=$rc in $((end-start))s"; else echo "$name [$prop $tier seed=${VERIF_SEED:-1}]: MISSED rc=$rc in $((end-start))s"; fi
