#!/usr/bin/env python3
"""Rewrites the table at the end of DESIGN.md section 8 from seeded/*/meta.json and sweep logs (later logs override)."""
import json,glob,re,os,sys
logs=sys.argv[1:]
log={}
for f in logs:
    for l in open(f):
        m=re.match(r'(C\d\d-m\d+) \[(C\d\d) (\w+) seed=(\d+)\]: (DETECTED|MISSED) rc=\d+ in (\d+)s \| (.*)',l)
        if m: log[m.group(1)]=(m.group(5),m.group(2),[x.replace('fingerprint=','') for x in m.group(7).split() if x.startswith('fingerprint=')])
rows=[];det=0
for d in sorted(glob.glob('/verif/seeded/C*-m*')):
    n=os.path.basename(d); m=json.load(open(d+'/meta.json'))
    summ=m.get('summary','').strip().replace('\n',' ').replace('|','/')
    summ=summ[:200]+('…' if len(summ)>200 else '')
    st,by,fps=log.get(n,('?','?',[]))
    fp=', '.join('`'+x+'`' for x in fps[:2])
    if st!='DETECTED' and 'assessment_by_main' in m: fp='— (assessed: not a violation of the statement beyond a recorded finding, see meta.json)'
    if st=='DETECTED': det+=1
    rows.append(f"| {n} | {summ} | {'yes'+('' if by==n[:3] else ' (by '+by+')') if st=='DETECTED' else 'no'} | {fp} |")
p='/verif/DESIGN.md'; s=open(p).read()
a=s.index('| change | what it does (agent\'s summary, shortened) | detected | by fingerprint(s) |')
b=s.index('## 9. What this family cannot decide')
s=s[:a]+'| change | what it does (agent\'s summary, shortened) | detected | by fingerprint(s) |\n|---|---|---|---|\n'+'\n'.join(rows)+'\n\n'+s[b:]
s=re.sub(r'Result of the last full sweep \(quick tier, seed 1\): \*\*\d+ of \d+ detected\*\*\.',f'Result of the last full sweep (quick tier, seed 1): **{det} of {len(rows)} detected**.',s)
open(p,'w').write(s)
print(det,len(rows))
