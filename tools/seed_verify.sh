#!/bin/bash
# tools/seed_verify.sh <src mutant dir> <Cxx> <k>
# Independently confirms a sub-agent's mutant in a scratch worktree of /repo
# HEAD (outside /repo and /verif): patch applies, the unedited suite passes
# with it, the demo fails with it and passes without it. On success the
# mutant is stored under /verif/seeded/<Cxx>-m<k>/ with meta.json extended.
set -u
src="$1"; id="$2"; k="$3"
export GOFLAGS=-mod=mod GOPROXY=off GOSUMDB=off GOTOOLCHAIN=local
wt=/tmp/sv/$id-m$k
rm -rf "$wt"; mkdir -p /tmp/sv
git -C /repo worktree add -q --detach "$wt" HEAD || exit 2
cleanup(){ git -C /repo worktree remove --force "$wt" 2>/dev/null; }
trap cleanup EXIT
demodir=$(python3 -c "import json;print(json.load(open('$src/meta.json')).get('demo_dir','s2'))")
name=$(grep -o "func TestMutant[A-Za-z0-9_]*" "$src/demo_test.go" | head -1 | sed 's/func //')
cd "$wt"
cp "$src/demo_test.go" "$demodir/zz_mutant_demo_test.go"
r_without=$(go test -vet=off -count=1 -run "^$name\$" ./$demodir/ >/tmp/sv/$id-m$k.without.log 2>&1 && echo pass || echo fail)
rm "$demodir/zz_mutant_demo_test.go"
if ! git apply --3way "$src/patch.diff" 2>/tmp/sv/$id-m$k.apply.log && ! git apply "$src/patch.diff" 2>>/tmp/sv/$id-m$k.apply.log; then echo "$id-m$k: PATCH DOES NOT APPLY"; cat /tmp/sv/$id-m$k.apply.log; exit 1; fi
git reset -q
r_suite=$(go test -vet=off -count=1 ./... >/tmp/sv/$id-m$k.suite.log 2>&1 && echo pass || echo fail)
cp "$src/demo_test.go" "$demodir/zz_mutant_demo_test.go"
r_with=$(go test -vet=off -count=1 -run "^$name\$" ./$demodir/ >/tmp/sv/$id-m$k.with.log 2>&1 && echo pass || echo fail)
rm "$demodir/zz_mutant_demo_test.go"
git diff > /tmp/sv/$id-m$k.rebased.diff
echo "$id-m$k: suite_with_patch=$r_suite demo_with_patch=$r_with demo_without_patch=$r_without"
if [ "$r_suite" = pass ] && [ "$r_with" = fail ] && [ "$r_without" = pass ]; then
  dst=/verif/seeded/$id-m$k; mkdir -p "$dst"
  cp /tmp/sv/$id-m$k.rebased.diff "$dst/patch.diff"; cp "$src/demo_test.go" "$dst/demo_test.go"
  python3 - "$src/meta.json" "$dst/meta.json" "$id" "$name" "$demodir" <<'PY'
import json,sys,subprocess
m=json.load(open(sys.argv[1]))
m['property']=sys.argv[3]
m['confirmed_by_main']={'base_commit':subprocess.check_output(['git','-C','/repo','rev-parse','--short','HEAD']).decode().strip(),
 'ran':['git apply patch.diff (scratch worktree of /repo HEAD under /tmp/sv)','go test -vet=off -count=1 ./...  -> pass','go test -run ^%s$ ./%s/ with patch -> FAIL'%(sys.argv[4],sys.argv[5]),'same without patch -> pass']}
json.dump(m,open(sys.argv[2],'w'),indent=1)
PY
  echo "$id-m$k: CONFIRMED -> $dst"
else
  echo "$id-m$k: NOT CONFIRMED (see /tmp/sv/$id-m$k.*.log)"; tail -5 /tmp/sv/$id-m$k.suite.log
fi
