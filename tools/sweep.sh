#!/bin/bash
# tools/sweep.sh <seed> [tier] [ids...] : runs every check at one seed, one summary line each.
seed="$1"; tier="${2:-quick}"; shift; shift 2>/dev/null
ids=("$@"); if [ ${#ids[@]} -eq 0 ]; then ids=($(seq -f "C%02g" 1 20)); fi
cd /verif
for id in "${ids[@]}"; do
  out=$(VERIF_SEED=$seed ./check $id $tier 2>&1); rc=$?
  echo "$id rc=$rc $(echo "$out" | grep -c '^VIOLATION') violations, $(echo "$out" | grep -c '^KNOWN-FINDING') known | $(echo "$out" | tail -1 | cut -c1-160)"
  if [ $rc -ne 0 ]; then echo "$out" | grep -E "VIOLATION|fingerprint=|BROKEN|INCONCLUSIVE" | head -8 | cut -c1-400; fi
done
