#!/usr/bin/env python3
"""commit_hunks.py -m MSG file:hunk,hunk file ...   (in /repo) — stage only the listed hunks (1-based; 'all') of each file and commit."""
import subprocess,sys,re,tempfile,os
args=sys.argv[1:]
msg=None; specs=[]
i=0
while i<len(args):
    if args[i]=='-m': msg=args[i+1]; i+=2
    elif args[i]=='-F': msg=open(args[i+1]).read(); i+=2
    else: specs.append(args[i]); i+=1
os.chdir('/repo')
for sp in specs:
    f,_,h=sp.partition(':')
    d=subprocess.check_output(['git','diff','-U3','--',f]).decode()
    parts=re.split(r'(?m)^(?=@@ )',d)
    head,hunks=parts[0],parts[1:]
    if h in ('','all'): sel=hunks
    else: sel=[hunks[int(k)-1] for k in h.split(',')]
    patch=head+''.join(sel)
    with tempfile.NamedTemporaryFile('w',suffix='.diff',delete=False) as t: t.write(patch); name=t.name
    subprocess.check_call(['git','apply','--cached','--recount',name]); os.unlink(name)
subprocess.check_call(['git','commit','-q','-m',msg])
print(subprocess.check_output(['git','log','--oneline','-1']).decode().strip())
