#!/usr/bin/env python3
"""Regenerates /verif/MANIFEST.json from the table below (single source of truth for what is claimed)."""
import json,subprocess
ALL=[f"C{i:02d}" for i in range(1,21)]
# id -> (technique, level text, level note, design ref)
CLAIMED={
 "C01":("runtime invariant monitor over the id algebra and its geometry: exhaustive enumeration of all ids of levels 0..6 (thorough 0..9) plus boundary-targeted ids at every level, each checked against the documented bit layout (level/face/range/parent/children partition/token/string round trips), curve arithmetic (AdvanceWrap/Advance vs integer model), and geometric oracles (two cells of one level share an edge iff they share two vertices; neighbours touch; expected neighbour counts incl. cube corners); hostile points on/within 0-3 ulps of cell, face and cube-corner boundaries must be contained by their leaf and all 31 ancestors (library test + independent exact-orientation quadrilateral test)",
         "Exhaustive for ids of levels 0..6 (quick) / 0..9 (thorough); sampled (boundary-targeted) above; 6*10^5 / 2*10^7 hostile points. Held on what was observed.",
         "Trusted: the documented id bit layout, Cell.Vertex geometry (monitored by C12), internal/ref orientation.","DESIGN.md section 5 C01"),
 "C02":("runtime reference-model monitor: every RobustSign/Sign/OrderedCCW/CompareDistance(s)/SignDotProd call and every internal stage (hooked) is compared with exact big.Int arithmetic and a derived symbolic perturbation; Grassmann-Pluecker chirotope monitor on 5-tuples; rounding-error search against the code's own constants",
         "Held on every execution observed: ~2.7M (quick) / ~10^8 (thorough) hostile triples, 5-tuples and distance triples concentrated on exact and near degeneracies (separations 1e-300..pi); not a proof - a constant that is too small by less than the rounding error the search reaches is not detected; the evidence reports the closest approach to each bound.",
         "Trusted: internal/ref exact integer arithmetic + Leibniz-expansion SoS (self-checked each run by GP relations/antisymmetry), math/big, build tag verif exporting the stages unchanged.","DESIGN.md section 5 C02"),
 "C03":("runtime reference-model monitor + operation-history monitor: every CrossingSign/VertexCrossing/EdgeOrVertexCrossing call is compared with the exact four-orientation criterion and the documented vertex rule; random operation words on one EdgeCrosser are shadowed by the current chain vertex only and every answer must equal the stateless reference; symmetry and VertexCrossing laws checked model-free",
         "Held on every execution observed: ~10^6 (quick) / ~5*10^7 (thorough) quadruples incl. shared endpoints, exactly collinear and ulp-perturbed points, plus 4*10^4 / 2*10^6 crosser histories of 10-50 mixed calls. Exactly antipodal pairs are not edges and are skipped (counted).",
         "Trusted: internal/ref orientation (exact + derived SoS), the library's Ortho() as definition of the reference direction.","DESIGN.md section 5 C03"),
 "C19":("runtime law monitor over point membership: for every generated pair the results of Union/Intersection/Contains/Intersects/Expanded/Complement/Project/AddPoint/PolarClosure are compared, probe by probe, with the closed-interval membership definition evaluated by the monitor (probes: every endpoint, its +-1 ulp neighbours, midpoints; grids for rectangles); caps: high-precision chord distances with 1e-14 slack; all results must be valid values",
         "Held on every execution observed: ~10^6 (quick) / ~6*10^7 (thorough) pairs of r1/s1 intervals, r2 rectangles, lat-lng rectangles, caps and chord-angle sums, endpoints concentrated at +-pi, +-pi/2, 0 and their ulp neighbours, incl. empty/full/singleton/inverted. 'A does not contain B' is only asserted when a float witness exists (complement of A holds a float).",
         "Trusted: the documented definition of membership in one interval (lo<=p<=hi, wrapped, -pi==pi), internal/ref 320-bit chord lengths for caps.","DESIGN.md section 5 C19"),
 "C04":("runtime reference-model + partition monitor: every Loop/Polygon/ContainsPointQuery containment answer on every evaluation path (first pass, index fresh, brute force, after Invert twice, single-loop polygon, LaxLoop/LaxPolygon/Loop as index shapes, containsBruteForce) is compared with an exact crossing-parity model; invariant hook on every index cell's containsCenter; model-free exactly-once monitors for loop+inverse, polygon+complement and all cells of one level",
         "Held on every execution observed: 5*10^3 (quick) / 2.5*10^5 (thorough) loops x ~70-150 probes on 10+ paths, 2*10^3 / 10^5 polygons with holes, 600 / 2*10^4 cell tilings; probes concentrated on vertices, edges, ulp neighbours, index-cell centres/corners, and loops with a vertex exactly at the centre of its index cell.",
         "Trusted: internal/ref crossing parity (exact orientation + SoS, documented vertex rule), generated loops simple by construction (star-shaped).","DESIGN.md section 5 C04"),
 "C06":("runtime brute-force-comparison monitor with invariant hooks: for every generated shape collection the monitor scans every edge of every shape with the exact reference predicates and compares ContainsPointQuery (3 vertex models: Contains/ShapeContains/ContainingShapes), CrossingEdgeQuery (Crossings/CrossingsEdgeMap, Interior/All, repeated on one index), iterator LocatePoint/LocateCellID, Loop/Polygon ContainsCell/IntersectsCell; after every build the hooked cell list is checked (sorted, disjoint, sorted clipped shapes and edge ids, containsCenter, every sampled point of every edge lies in a cell that lists the edge); Shape contract (chains tile the edge ids, ChainEdge == Edge, ChainPosition inverts) for all 7 shape types",
         "Held on every execution observed: 2.5*10^3 (quick) / 10^5 (thorough) collections of 1..8 mixed shapes, ~90 point queries x 3 models and ~24 crossing queries each, all compared with the full scan. Cell relations are two-sided only for cells clearly inside/outside by construction, one-sided otherwise.",
         "Trusted: the monitor's own edge scan with internal/ref predicates; ring-parity containment of constructed polygons.","DESIGN.md section 5 C06"),
 "C07":("runtime monitor with three oracles per pair and per inverted combination (A,B),(~A,B),(A,~B),(~A,~B): ground truth known by construction (nested / disjoint / crossing / same-level adjacent cells), exact set-algebra laws evaluated on the library's own answers (symmetry, self-containment, Intersects == !complement.Contains, Contains == complements reversed, single-loop polygon == loop), and one-sided point-set checks against the exact crossing-parity model; polygons with holes/islands vs small loops placed by radius band",
         "Held on every execution observed: 1.2*10^4 (quick) / 4*10^5 (thorough) loop pairs x 4 inversions, 3*10^3 / 10^5 cell pairs, 2*10^3 / 10^5 polygon pairs; loops of 3..700 (..10^4) vertices. Pairs with T-junctions (different-level cells) get laws and one-sided checks only, because under the library's perturbation model a vertex in the interior of an edge is not on it.",
         "Trusted: conservative inner/outer radii of star-shaped loops for the constructed relation; internal/ref parity containment.","DESIGN.md section 5 C07"),
 "C11":("runtime reference-model monitor: every Normalize/IsNormalized/Denormalize/LeafCellsCovered/union/intersection/difference/Contains*/Intersects*/CellUnionFromRange call, s2intersect.Find and the CellIndex range+contents iterators are compared with an exact leaf-interval set model (canonical form and minimal tiling computed independently)",
         "Held on every execution observed: 2*10^5 (quick) / 1.7*10^7 (thorough) hostile multisets and tuples (nested, overlapping, duplicated, sibling groups, whole faces, ends of the curve); every operation must equal the model exactly, including normal form.",
         "Trusted: internal/ref/leafset.go (integer interval sets, self-checked each run by inclusion-exclusion, partition and canonical round-trip identities).","DESIGN.md section 5 C11"),
}
NA_REASON="monitor not built yet in this session (planned in DESIGN.md section 5); will be claimed once its check exists and is silent on the unchanged tree"
def main():
    commits=subprocess.check_output(['git','-C','/repo','log','--format=%h %s']).decode().splitlines()
    hooks=[c.split()[0] for c in commits if c.split(' ',1)[1].startswith('verif:')]
    checks=[]
    for pid in ALL:
        if pid not in CLAIMED: continue
        tech,text,note,ref=CLAIMED[pid]
        checks.append({"property_id":pid,"quick_cmd":f"./check {pid} quick","thorough_cmd":f"./check {pid} thorough",
          "evidence_file":f"/verif/evidence/{pid}.json","replay_cmd_template":f"./check {pid} --replay {{path}}","engine":"mon",
          "level_claimed":{"category":"exploration","text":text,"design_ref":ref},"level_note":note,"technique":tech})
    m={"version":1,"setup_cmd":"./setup.sh",
     "hooks":{"guard":"verif (Go build tag)","enable":"go build -tags verif (./check does this; -race added for C14); /verif/go.mod replaces github.com/golang/geo with /repo so every check compiles /repo's working tree",
              "baseline_off_cmd":"cd /repo && GOFLAGS=-mod=mod GOPROXY=off GOSUMDB=off GOTOOLCHAIN=local go test -vet=off -count=1 ./...",
              "source_commits":hooks,"add_only":True},
     "engines":[{"name":"mon","path":"/verif/cmd/mon","serves_properties":sorted(CLAIMED),"kind_free_text":"Go monitor binary built from /verif against /repo's working tree: seeded hostile workloads drive the real library while reference-model, invariant and history monitors observe every call; race detector build for C14; crash-isolated child workers for C13/C15"}],
     "checks":checks,
     "notes":"All checks: exit 0 held / exit 1 + VIOLATION line / exit 2 build failure or broken oracle / exit 3 inconclusive (a monitor floor was not reached). KNOWN-FINDING lines come from known_findings.jsonl only. VERIF_SEED selects the workload; case lists are a function of the seed only.",
     "not_applicable":[{"property_id":p,"reason":NA_REASON} for p in ALL if p not in CLAIMED]}
    json.dump(m,open('/verif/MANIFEST.json','w'),indent=1)
    print("claimed:",sorted(CLAIMED))
main()
