#!/bin/bash
# tools/seed_sweep.sh [tier] [names...]: runs seeded changes against their property's check; one line each.
tier="${1:-quick}"; shift
names=("$@"); if [ ${#names[@]} -eq 0 ]; then names=($(cd /verif/seeded && ls -d C*-m*)); fi
for n in "${names[@]}"; do
  with=$(python3 -c "import json;print(json.load(open('/verif/seeded/$n/meta.json')).get('check_with',''))" 2>/dev/null)
  out=$(/verif/tools/seed_run_iso.sh $n $tier $with 2>&1)
  fp=$(echo "$out" | grep -o "fingerprint=[^ ]*" | head -2 | tr '\n' ' ')
  echo "$(echo "$out" | tail -1) | $fp"
done
