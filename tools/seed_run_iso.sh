#!/bin/bash
# tools/seed_run_iso.sh <seeded name> [quick|thorough] [property override]
# Like seed_run.sh, but fully isolated: the seeded change is applied to a scratch worktree of /repo HEAD and
# the checks are run from a scratch copy of /verif whose go.mod points at that worktree. Neither /repo nor
# /verif (evidence, replays) is touched, so this can run while other checks use /repo. Only for the drill:
# registered commands always build /repo itself.
set -u
name="$1"; tier="${2:-quick}"; prop="${3:-${name%%-*}}"
d=/verif/seeded/$name
base=/tmp/sr/$name.$$
mkdir -p /tmp/sr
git -C /repo worktree add -q --detach "$base-repo" HEAD || exit 2
cleanup(){ git -C /repo worktree remove --force "$base-repo" 2>/dev/null; rm -rf "$base-verif"; }
trap cleanup EXIT
git -C "$base-repo" apply "$d/patch.diff" || { echo "$name: patch does not apply"; exit 2; }
mkdir -p "$base-verif"
rsync -a --exclude .git --exclude .work --exclude replays --exclude seeded /verif/ "$base-verif/"
sed -i "s|=> /repo|=> $base-repo|" "$base-verif/go.mod"
start=$(date +%s)
out=$(cd "$base-verif" && VERIF_SEED="${VERIF_SEED:-1}" ./check "$prop" "$tier" 2>&1); rc=$?
end=$(date +%s)
echo "$out" | grep -E "VIOLATION|fingerprint=|BROKEN|INCONCLUSIVE|BUILD-FAILED|verdict=" | head -12
if echo "$out" | grep -q "^VIOLATION property=$prop"; then echo "$name [$prop $tier seed=${VERIF_SEED:-1}]: DETECTED rc=$rc in $((end-start))s"; else echo "$name [$prop $tier seed=${VERIF_SEED:-1}]: MISSED rc=$rc in $((end-start))s"; fi
