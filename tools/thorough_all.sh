#!/bin/bash
# tools/thorough_all.sh <seed> [ids...]: thorough tier of every check, summary + alarms on stdout.
seed="${1:-1}"; shift
ids=("$@"); if [ ${#ids[@]} -eq 0 ]; then ids=(C09 C04 C06 C20 C10 C05 C13 C08 C07 C11 C19 C14 C01 C18 C16 C03 C02 C12 C17 C15); fi
for id in "${ids[@]}"; do
  start=$(date +%s)
  out=$(VERIF_SEED=$seed ./check $id thorough 2>&1); rc=$?
  echo "== $id rc=$rc $(( $(date +%s)-start ))s | $(echo "$out" | tail -1 | cut -c1-200)"
  echo "$out" | grep -E "^VIOLATION|fingerprint=|BROKEN|INCONCLUSIVE" | grep -v "^KNOWN" | head -12 | cut -c1-500
  mkdir -p .work/thorough; cp evidence/$id.json .work/thorough/$id.seed$seed.json 2>/dev/null
  cp replays/$id-*.json .work/thorough/ 2>/dev/null
done
